"""suite `backend`: every archive class as a mapping (C03), against model M7 and against a real dict

Per trace: one archive configuration, a few handles (the first one, plus those made by copy(name)),
20-150 mapping operations.  Three views are compared after every operation:
  impl   - what klepto returned / raised, and the contents of every handle (dict(a.items()), __asdict__())
  model  - Lean `Klepto.Backend.Sys.step` on the same lines (correspondence)
  dict   - a plain Python dict per handle (monitor: the property itself)
Streams: `main` (keys with injective file names, values the codec round-trips: the hypotheses of the
refinement theorems), `alias` (1/'1', 'a-b'/'a_b', (1,2)/'(1, 2)'), `bad` (values the codec cannot
encode / does not read back equal, keys the codec coerces)."""
import os, sys, json, time, collections, random, hashlib, pickle, math
from multiprocessing import Pool
from common import *

RULE = ('seeded sequences of 20-150 mapping operations (setitem getitem delitem contains len iter keys values items get pop popitem '
        'popkeys setdefault update clear copy ==) on dict/null/file{pickle,json,source}/dir{pickle,json,source,compressed,memmap,fast}/'
        'sqlite{memory,file} archives, direct and behind a cache (with dump/load), 1-3 handles per trace; compared after every step with the '
        'Lean backend model and with a Python dict; non-trivial = trace hit a KeyError path, an overwrite, popitem/popkeys, copy or ==')
NTRACES = {'quick': 360, 'thorough': 6000}

CONFIGS = [
    # kind, codec, options
    ('dict', 'mem', {}), ('null', 'mem', {}),
    ('file', 'pickle', {}), ('file', 'json', dict(protocol='json')), ('file', 'source', dict(serialized=False)),
    ('dir', 'pickle', {}), ('dir', 'json', dict(protocol='json')), ('dir', 'source', dict(serialized=False)),
    ('dir', 'pickle', dict(compression=3)), ('dir', 'pickle', dict(memmode='r')), ('dir', 'pickle', dict(fast=True)),
    ('sql', 'sql', dict(db='memory')), ('sql', 'sql', dict(db='file')),
]

SAFE = 'abcdefgxyzKQ0123456789_ .'


# ------------------------------------------------------------------ keys
def kj(k):
    """canonical JSON form of a key (shared with the Lean decoder)"""
    if isinstance(k, bool): raise TypeError('bool key')
    if isinstance(k, int): return {'i': k}
    if isinstance(k, str): return {'s': k}
    if isinstance(k, bytes): return {'b': k.hex(), 'md5': hashlib.md5(repr(k).encode()).hexdigest()}
    if isinstance(k, tuple): return {'t': [kj(x) for x in k]}
    raise TypeError('unsupported key %r' % (k,))


def unkj(j):
    if 'i' in j: return j['i']
    if 's' in j: return j['s']
    if 'b' in j: return bytes.fromhex(j['b'])
    return tuple(unkj(x) for x in j['t'])


def kcanon(k):
    try: return json.dumps(kj(k), sort_keys=True)
    except TypeError: return 'X' + repr(k)


def py_fname(k):
    """independent statement of dir_archive's key -> file name map"""
    if isinstance(k, bytes): return hashlib.md5(repr(k).encode()).hexdigest()
    return str(k).replace('-', '_')


MAIN_KEYS = {
    'str': ['a', 'b', 'k1', 'x_y', 'K', 'Q 7', 'z.z', 'p-q', '2024-01-15', 'TASK_1', 'K_K_a', 'k[0]', 'L' * 245 + 'a', 'L' * 245 + 'b'],   # two long keys with a long common prefix (still below NAME_MAX); two keys that contain the entry prefix 'K_' themselves
    'int': [7, 12, -3, 0],
    'ident': ['a', 'b', 'k1', 'x_y', 'K', 'Q7', 'TASK_1', 'K_K_a'],
    'tuple': [(1, 2), ('a', 3), (5,), (), ('x', 'y'), ('x[1]', 2)],      # (one key whose text holds a bracket expression, as glob patterns do)
    'bytes': [pickle.dumps(x) for x in [(1,), 'a', (2, 'b')]],
}
BIGVALUE = 'ab' * 800000          # 1.6 MB of text
ALIAS_KEYS = [1, '1', 'a-b', 'a_b', (1, 2), '(1, 2)', -3, '_3']


def key_pool(r, kind, codec, stream):
    if stream == 'alias':
        pool = list(ALIAS_KEYS)
        if kind == 'sql' or codec == 'json' or (kind == 'dir' and codec == 'source'): pool = [k for k in pool if not isinstance(k, tuple)]
        if kind == 'dir' and codec == 'source': pool = [k for k in pool if k != '(1, 2)']
        r.shuffle(pool)
        return pool[:r.choice([4, 6, 8])]
    if kind == 'file' and codec == 'json': classes = ['str', 'int'] if stream == 'bad' else ['str']   # json object keys are strings
    elif kind == 'dir' and codec == 'json': classes = ['str', 'int']       # input.json holds the key: scalars survive
    elif kind == 'sql': classes = ['str', 'int', 'bytes']
    elif kind == 'dir' and codec == 'source': classes = ['ident', 'int']    # the directory name must be an importable module name
    elif codec == 'source': classes = ['str', 'int', 'tuple']
    else: classes = ['str', 'int', 'tuple', 'bytes']
    pool = []
    for c in classes: pool += MAIN_KEYS[c]
    r.shuffle(pool)
    return pool[:r.choice([3, 5, 8])]


# ------------------------------------------------------------------ values
class Unpicklable:
    """a value no encoder here can encode"""
    def __init__(self, n): self.n = n; self.g = (i for i in ())
    def __repr__(self): return '<Unpicklable %d>' % self.n
    def __reduce__(self): raise TypeError('cannot encode Unpicklable')


def value_pool(r, codec, stream):
    scal = [0, 1, -5, 2 ** 40, 'v', 'w w', '', 1.5, -0.25, None, True, 'caf\u00e9 \u4e2d\u6587']
    pools = {
        'mem': scal + [(1, 2), [1, [2]], {'a': 1}, b'by', float('inf')],
        'pickle': scal + [(1, 2), [1, [2, 'x']], {'a': (1,)}, b'by', float('inf'), {1: 2}, ((),)],
        'json': scal + [[1, 2], [1, ['x', None]], {'a': 1, 'b': [2]}, {}],
        'source': [0, 1, -5, 2 ** 40, 'v', 'w w', '', 1.5, None, True, (1, 2), [1, [2]], {'a': 1}, 'caf\u00e9 \u4e2d\u6587'],
        'sql': [0, 1, -5, 2 ** 40, 'v', 'w w', '', 1.5, -0.25, None, True, b'by', 'caf\u00e9 \u4e2d\u6587'],
    }
    pool = list(pools[codec])
    if stream == 'bad':
        if codec in ('pickle', 'mem'): pool += ['<<BAD1>>', '<<BAD2>>']
        elif codec == 'json': pool += [(1, 2), {'t': (3,)}, '<<BAD1>>', b'by']
        elif codec == 'sql': pool += [(1, 2), [3], {'a': 1}, '<<BAD1>>']
    r.shuffle(pool)
    return pool[:r.choice([4, 7, 10])] + ([x for x in pool if is_bad(x) or isinstance(x, tuple)][:2] if stream == 'bad' else [])


def is_bad(v): return isinstance(v, str) and v.startswith('<<BAD')


_BAD = {}
def mat(v):
    """ops are plain data; the unencodable values are materialised here"""
    if is_bad(v):
        if v not in _BAD: _BAD[v] = Unpicklable(int(v[5:-2]))
        return _BAD[v]
    return v


class Vals:
    """interning of values by Python == (what 'the same value' means to a dict); id 0 is None"""
    def __init__(self): self.v = [None]
    def __call__(self, x):
        for i, y in enumerate(self.v):
            try:
                if type(x) is type(y) and x == y: return i
            except Exception: pass
        for i, y in enumerate(self.v):
            try:
                if (x == y) and not isinstance(x, (list, tuple)) and not isinstance(y, (list, tuple)): return i
            except Exception: pass
        self.v.append(x); return len(self.v) - 1


def oracle_readback(codec, opts, v):
    """what the encoder of this configuration reads back for v - stated with the standard library only.
    raises when the value cannot be encoded"""
    if codec == 'mem': return v
    if codec == 'pickle':
        import dill
        return dill.loads(dill.dumps(v))
    if codec == 'json': return json.loads(json.dumps(v))
    if codec == 'source':
        return eval(repr(v), {'inf': float('inf'), 'nan': float('nan')})
    if codec == 'sql':
        import sqlite3
        c = sqlite3.connect(':memory:')
        try: return c.execute('select ?', (v,)).fetchone()[0]
        finally: c.close()
    raise ValueError(codec)


def cv_table(vals, codec, opts):
    tab = {}
    i = 0
    while i < len(vals.v):
        try: tab[i] = vals(oracle_readback(codec, opts, vals.v[i]))
        except Exception: tab[i] = None
        i += 1
    return [[i, tab[i]] for i in sorted(tab)]


# ------------------------------------------------------------------ generation
OPS = ['setitem'] * 6 + ['getitem'] * 3 + ['delitem'] * 2 + ['contains', 'len', 'keys', 'values', 'items', 'get', 'get', 'pop', 'pop', 'pop',
       'popitem', 'popkeys', 'popkeys', 'setdefault', 'setdefault', 'update', 'update', 'clear', 'copy', 'eq', 'eq', 'iter', 'eqd', 'copyonto']


def gen(tier, idx):
    r = rng('backend', tier, idx)
    kind, codec, opts = CONFIGS[idx % len(CONFIGS)]
    stream = ['main', 'main', 'main', 'alias', 'bad'][(idx // len(CONFIGS)) % 5]
    if stream == 'alias' and kind not in ('dir',): stream = 'main'
    if stream == 'bad' and (kind in ('null',) or codec == 'source'): stream = 'main'
    cached = (idx // (len(CONFIGS) * 5)) % 3 == 2 and kind != 'null'
    keys = key_pool(r, kind, codec, stream)
    values = value_pool(r, codec, stream)
    n = r.choice([20, 40, 80] if tier == 'quick' else [20, 60, 150])
    if kind in ('dir', 'sql') and tier == 'quick': n = min(n, 40)
    ops = []
    nh = 1
    K = lambda: r.choice(keys)
    V = lambda: r.choice(values)
    def encodable(v):
        if is_bad(v): return False
        try: oracle_readback(codec, opts, v); return True
        except Exception: return False
    good = [v for v in values if encodable(v)]
    for _ in range(n):
        op = r.choice(OPS)
        h = r.randrange(nh)
        if op == 'setitem': ops.append(['setitem', h, K(), V()])
        elif op in ('getitem', 'delitem', 'contains'): ops.append([op, h, K()])
        elif op in ('len', 'keys', 'values', 'items', 'clear', 'popitem', 'iter', 'eqd', 'copyonto'): ops.append([op, h])
        elif op == 'get': ops.append(['get', h, K(), r.choice([None, r.choice(good)])])
        elif op == 'pop': ops.append(['pop', h, K()] + ([r.choice(good)] if r.random() < 0.5 else []))
        elif op == 'popkeys':
            ks = [K() for _ in range(r.choice([0, 1, 2, 2, 3]))]
            ops.append(['popkeys', h, ks] + ([r.choice(good)] if r.random() < 0.4 else []))
        elif op == 'setdefault': ops.append(['setdefault', h, K()] + ([V()] if r.random() < 0.7 else []))
        elif op == 'update':
            ops.append(['update', h, [[K(), r.choice(good)] for _ in range(r.choice([0, 1, 2, 3]))]])
        elif op == 'copy':
            if nh < 3 and kind != 'null' and not (kind == 'sql' and opts.get('db') == 'memory' and False):
                ops.append(['copy', h, nh]); nh += 1
        elif op == 'eq': ops.append(['eq', h, r.randrange(nh)])
        if cached and r.random() < 0.15: ops.append([r.choice(['dump', 'load']), r.randrange(nh)])
    if kind == 'dir' and (opts.get('compression') or opts.get('fast') or opts.get('memmode')) and keys and (idx // len(CONFIGS)) % 3 == 0:
        # stratum (the entry files written by klepto's own pickler): a value whose pickle is larger than one megabyte, stored and read back
        at = r.randrange(len(ops) + 1)
        ops[at:at] = [['setitem', 0, keys[-1], BIGVALUE], ['getitem', 0, keys[-1]], ['setitem', 0, keys[-1], 0]]
    if (idx // len(CONFIGS)) % 2 == 1 and keys:
        # stratum: a stored value overwritten by one that is == to it but of another type (1 -> True; by assignment and by update): the
        # archive holds what was stored last, to the type
        k0 = keys[0]; at = r.randrange(len(ops) + 1)
        ops[at:at] = [['setitem', 0, k0, 1], ['getitem', 0, k0], [["setitem", 0, k0, True], ["update", 0, [[k0, True]]]][(idx // (2 * len(CONFIGS))) % 2], ['getitem', 0, k0], ['gettype', 0, k0, True], ['items', 0]]
    seed = []
    if kind != 'null' and r.random() < 0.4 and good:
        for k in r.sample(keys, min(len(keys), r.choice([1, 2]))): seed.append([k, r.choice(good)])
    return dict(kind=kind, codec=codec, opts=opts, stream=stream, cached=cached, seed=seed), ops


# ------------------------------------------------------------------ implementation side
def open_archive(cfg, tmp, n, seed=None, cached=False):
    """the real archive object number n of this trace, through the factories of klepto.archives: `dict=` seeds it,
    `cached=True` puts an in-memory cache in front (the seed then goes into the cache)"""
    import klepto.archives as ka
    kind, opts = cfg['kind'], dict(cfg['opts'])
    kw = dict(cached=cached)
    if seed is not None: kw['dict'] = dict(seed)
    if kind == 'dict': return ka.dict_archive('d%d' % n, **kw)
    if kind == 'null': return ka.null_archive('n%d' % n, **kw)
    if kind == 'file':
        ext = '.py' if opts.get('serialized') is False else ('.json' if opts.get('protocol') == 'json' else '.pkl')
        return ka.file_archive(os.path.join(tmp, 'f%d%s' % (n, ext)), **kw, **opts)
    if kind == 'dir': return ka.dir_archive(os.path.join(tmp, 'dir%d' % n), **kw, **opts)
    if kind == 'sql':
        db = opts.pop('db')
        if db == 'memory': return ka.sqltable_archive(None, **kw)
        return ka.sqltable_archive('sqlite:///%s' % os.path.join(tmp, 's.db'), **kw) if n == 0 else \
            ka.sqltable_archive('sqlite:///%s?table=t%d' % (os.path.join(tmp, 's.db'), n), **kw)
    raise ValueError(kind)


def copy_name(cfg, tmp, n):
    kind, opts = cfg['kind'], cfg['opts']
    if kind in ('dict', 'null'): return 'copy%d' % n
    if kind == 'file':
        ext = '.py' if opts.get('serialized') is False else ('.json' if opts.get('protocol') == 'json' else '.pkl')
        return os.path.join(tmp, 'f%d%s' % (n, ext))
    if kind == 'dir': return os.path.join(tmp, 'dir%d' % n)
    if kind == 'sql':
        if opts.get('db') == 'memory': return 'sqlite:///:memory:?table=t%d' % n
        return 'sqlite:///%s?table=t%d' % (os.path.join(tmp, 's.db'), n)


def bexc(e):
    return 'KeyError' if isinstance(e, KeyError) else 'Other'


def run_trace(cfg, ops):
    """run the ops on the real archives and on reference dicts; returns records with lines for the Lean driver"""
    from klepto.archives import cache as kcache
    tmp = scratch_dir('kb')
    cwd = os.getcwd()
    vals = Vals()
    decoy = None
    try:
        os.chdir(tmp)
        if cfg['codec'] == 'source' and cfg['kind'] in ('file', 'dir'):
            # source-text archives are read through the import system: a directory EARLIER on the module search path holds modules with
            # the archive's own names (f0.py ...; K_<key>/__init__.py for the whole key pool) and foreign contents
            decoy = os.path.join(tmp, 'decoy'); os.makedirs(decoy)
            for n_ in range(4): open(os.path.join(decoy, 'f%d.py' % n_), 'w').write("memo = {'__decoy__': 'foreign'}\n")
            for o_ in ops:
                for k_ in ([o_[2]] if o_[0] in ('setitem', 'getitem', 'delitem', 'contains', 'get', 'pop', 'setdefault') else
                           (o_[2] if o_[0] == 'popkeys' else ([p_[0] for p_ in o_[2]] if o_[0] == 'update' else []))):
                    if isinstance(k_, str) and k_.isidentifier() and len(k_) < 100:
                        os.makedirs(os.path.join(decoy, 'K_' + k_), exist_ok=True)
                        open(os.path.join(decoy, 'K_' + k_, '__init__.py'), 'w').write("memo = '__decoy__'\n")
            sys.path.insert(0, decoy)
        ops_in = ops
        ops = [[mat(x) if not isinstance(x, list) else [([p[0], mat(p[1])] if isinstance(p, list) and len(p) == 2 and o[0] == 'update' else p) for p in x]
                for x in o] for o in ops]
        # intern every value the ops mention, then close the table under the codec oracle
        for op in ops:
            if op[0] == 'setitem': vals(op[3])
            elif op[0] in ('get',): vals(op[3])
            elif op[0] in ('pop', 'setdefault') and len(op) > 3: vals(op[3])
            elif op[0] == 'popkeys' and len(op) > 3: vals(op[3])
            elif op[0] == 'update':
                for k, v in op[2]: vals(v)
        for k, v in cfg.get('seed', []): vals(mat(v))     # the factory's `archive.update(dict)`: an update through the handle
        cv = cv_table(vals, cfg['codec'], cfg['opts'])
        nvals = len(vals.v)
        ckmode = 'json' if (cfg['kind'] == 'file' and cfg['codec'] == 'json') else ('sql' if cfg['kind'] == 'sql' else 'id')
        lines = [dict(suite='backend', op='cfg', kind=cfg['kind'], ck=ckmode, cv=cv, cached=cfg['cached'])]
        seed = [(mat(k) if False else k, mat(v)) for k, v in cfg.get('seed', [])]
        h0 = open_archive(cfg, tmp, 0, seed=seed, cached=cfg['cached'])
        arch = [h0.archive if cfg['cached'] else h0]
        hand = [h0]
        ref = [dict()]            # reference dict of what the *handle* holds
        refa = [dict()]           # reference dict of the archive behind a cache
        names = ['a']
        recs = []
        tags = collections.Counter()
        nscr = [0]

        def contents(i):
            a = arch[i]
            try: d1 = dict(a.items())
            except Exception as e: d1 = 'EXC'
            try: d2 = a.__asdict__()
            except Exception as e: d2 = 'EXC'
            return d1, d2

        def canon_items(d):
            if d == 'EXC': return 'EXC'
            return sorted(([kcanon(k), vals(v)] for k, v in d.items()), key=lambda p: p[0])

        for i, op in enumerate(([['seed', 0, list(seed)]] if seed else []) + list(ops)):
            if seed: i -= 1
            kind = op[0]; hi = op[1]
            if hi >= len(hand): continue
            H = hand[hi]; R = ref[hi]; nm = names[hi]
            line = dict(op=kind, h=nm)
            out = None; exp = None
            try:
                if kind == 'setitem':
                    line.update(k=kj(op[2]), v=vals(op[3])); H[op[2]] = op[3]; out = dict(o='unit')
                elif kind == 'getitem':
                    line.update(k=kj(op[2])); out = dict(o='val', v=vals(H[op[2]]))
                elif kind == 'delitem':
                    line.update(k=kj(op[2])); del H[op[2]]; out = dict(o='unit')
                elif kind == 'contains':
                    line.update(k=kj(op[2])); out = dict(o='bool', v=bool(op[2] in H))
                elif kind == 'gettype':
                    # (monitor only) the stored value to the TYPE: what was stored last is a bool, not the ==-equal int stored before it
                    line = None
                    if cfg['kind'] == 'null' or hand[hi] is not arch[hi]: continue
                    want = type(oracle_readback(cfg['codec'], cfg['opts'], op[3])).__name__
                    out = dict(o='gettype', got=type(H[op[2]]).__name__, want=want, k=repr(op[2]))
                elif kind == 'len': out = dict(o='nat', v=len(H))
                elif kind == 'iter': line['op'] = 'keys'; out = dict(o='keys', v=sorted(kcanon(k) for k in iter(H)))
                elif kind == 'keys': out = dict(o='keys', v=sorted(kcanon(k) for k in H.keys()))
                elif kind == 'values': out = dict(o='vals', v=sorted(vals(v) for v in H.values()))
                elif kind == 'items': out = dict(o='items', v=sorted([kcanon(k), vals(v)] for k, v in H.items()))
                elif kind == 'get':
                    line.update(k=kj(op[2]), d=vals(op[3]))
                    out = dict(o='val', v=vals(H.get(op[2]) if op[3] is None else H.get(op[2], op[3])))
                elif kind == 'pop':
                    line.update(k=kj(op[2]), d=vals(op[3]) if len(op) > 3 else None)
                    out = dict(o='val', v=vals(H.pop(op[2], *op[3:])))
                elif kind == 'popitem':
                    line['choice'] = None
                    k, v = H.popitem()
                    line['choice'] = kj(k); out = dict(o='pair', k=kcanon(k), v=vals(v))
                elif kind == 'popkeys':
                    line.update(ks=[kj(k) for k in op[2]], d=vals(op[3]) if len(op) > 3 else None)
                    # the keys arrive as a list, a tuple, a list iterator or a generator (any iterable of keys is "the specified keys")
                    shape = (len(op[2]) + len(op)) % 4
                    karg = [list, tuple, iter, lambda ks_: (k_ for k_ in ks_)][shape](list(op[2]))
                    out = dict(o='vlist', v=[vals(v) for v in H.popkeys(karg, *op[3:])])
                elif kind == 'setdefault':
                    line.update(k=kj(op[2]), d=vals(op[3]) if len(op) > 3 else 0)
                    out = dict(o='val', v=vals(H.setdefault(op[2], *op[3:])))
                elif kind == 'update':
                    line.update(kvs=[[kj(k), vals(v)] for k, v in op[2]]); H.update([(k, v) for k, v in op[2]]); out = dict(o='unit')
                elif kind == 'clear': H.clear(); out = dict(o='unit')
                elif kind == 'seed':
                    line.update(op='update', kvs=[[kj(k), vals(v)] for k, v in op[2]]); out = dict(o='unit')
                elif kind == 'copy':
                    n = op[2]; to = 'abc'[n]
                    line.update(to=to)
                    a2 = arch[hi].copy(copy_name(cfg, tmp, n))
                    arch.append(a2); hand.append(a2); names.append(to)
                    ref.append(dict(refa[hi] if cfg['cached'] else ref[hi])); refa.append(dict(refa[hi]))
                    out = dict(o='unit')
                elif kind == 'eq':
                    if op[2] >= len(hand): continue
                    line.update(o=names[op[2]])
                    res = arch[hi] == arch[op[2]]
                    out = dict(o='bool', v=bool(res) if res is not NotImplemented else False)
                elif kind == 'eqd':
                    # equality across archive classes: against a dict_archive with the same / with different contents (monitor only)
                    import klepto.archives as ka
                    cur = dict(arch[hi].items())
                    d_same = ka.dict_archive('same', dict(cur), cached=False)
                    d_diff = ka.dict_archive('diff', dict(cur, **{'__extra__': 1}), cached=False)
                    line = None
                    tb = lambda x: bool(x) if x is not NotImplemented else 'NotImplemented'
                    v_ = [tb(arch[hi] == d_same), tb(d_same == arch[hi]), tb(arch[hi] == d_diff), tb(d_diff == arch[hi]),
                          tb(arch[hi] != d_same), tb(d_diff != arch[hi])]
                    # same size, different key sets, the differing key holds None / a falsy value (a missing key is not a stored None)
                    for filler in (None, 0):
                        if cur and not (cfg['kind'] == 'file' and cfg['codec'] == 'json' and False):
                            k0 = sorted(cur, key=repr)[0]
                            sw = {k: v for k, v in cur.items() if k != k0}; sw['__other__'] = filler
                            d_sw = ka.dict_archive('swap', sw, cached=False)
                            v_ += [tb(arch[hi] == d_sw), tb(d_sw == arch[hi])]
                        else: v_ += [False, False]
                    out = dict(o='eqd', v=v_)
                    # equality inside one class is about contents too, not about names: two stores with the same base name in
                    # different directories (a copy made elsewhere), one left equal and one given an extra entry
                    if cfg['kind'] in ('file', 'dir') and hand[hi] is arch[hi]:
                        nscr[0] += 1
                        sub = os.path.join(tmp, 'sib%d' % nscr[0]); os.mkdir(sub)
                        S = arch[hi].copy(os.path.join(sub, os.path.basename(arch[hi].__state__['id'])))
                        sib = [tb(arch[hi] == S), tb(S == arch[hi]), tb(arch[hi] != S)]
                        xk = [k for k in key_pool(rng('sib', i), cfg['kind'], cfg['codec'], 'main') if k not in cur]
                        if xk:
                            S[xk[0]] = 1
                            sib += [tb(arch[hi] == S), tb(S == arch[hi]), tb(arch[hi] != S)]
                        else: sib += [False, False, True]
                        out['sib'] = sib
                elif kind == 'copyonto':
                    # copy(name) onto a name that already holds an archive with OTHER contents (monitor only, on a scratch target):
                    # the result is an archive equal to the source - or the call refuses and touches nothing
                    line = None
                    if cfg['kind'] not in ('file', 'dir', 'sql') or hand[hi] is not arch[hi]: continue
                    nscr[0] += 1
                    tname = copy_name(cfg, tmp, 50 + nscr[0])
                    src = canon_items(dict(arch[hi].items()))
                    extra_k = [k for k in key_pool(rng('copyonto', i), cfg['kind'], cfg['codec'], 'main') if kcanon(k) not in dict(src)]
                    if not extra_k: continue
                    T = arch[hi].copy(tname); T.clear(); T[extra_k[0]] = 1
                    before = canon_items(dict(T.items()))
                    try:
                        R = arch[hi].copy(tname)
                        got = canon_items(dict(R.items()))
                        out = dict(o='copyonto', ok=(got == src), how='returned', got=got, src=src)
                    except Exception as e:
                        after = canon_items(dict(T.items()))         # (T is an uncached handle on the target: every read goes to the store)
                        out = dict(o='copyonto', ok=(after == before and canon_items(dict(arch[hi].items())) == src), how='raised:' + type(e).__name__, got=after, src=before)
                elif kind == 'dump':
                    if hand[hi] is arch[hi]: continue
                    H.dump(); out = dict(o='unit')
                elif kind == 'load':
                    if hand[hi] is arch[hi]: continue
                    H.load(); out = dict(o='unit')
            except Exception as e:
                out = dict(o='err', v=bexc(e))
                if kind == 'popitem' and line.get('choice') is None: pass
            tags[kind] += 1
            if out.get('o') == 'err': tags['err:' + out['v']] += 1
            obs = {}
            for j in range(len(hand)):
                d1, d2 = contents(j)
                obs[names[j]] = dict(mem=canon_items(dict(hand[j])) if hand[j] is not arch[j] else None,
                                     arch=canon_items(d2), items=canon_items(d1))
            recs.append(dict(i=i, op=op, line=line, out=out, obs=obs))
            if line is not None: lines.append(line)
        if len(vals.v) > nvals:
            # a value came back that the oracle did not predict: extend the table so that the model can name it
            pass
        for rec in recs: rec['op'] = ops_in[rec['i']] if rec['i'] >= 0 else ['seed', 0, repr(cfg.get('seed'))]
        return dict(cfg=cfg, ops=ops_in, lines=lines, recs=recs, tags=dict(tags), err=None,
                    vals=[repr(v)[:40] for v in vals.v], nvals=nvals)
    except Exception:
        import traceback
        return dict(cfg=cfg, ops=ops, lines=[], recs=[], tags={}, err=traceback.format_exc()[-2500:])
    finally:
        os.chdir(cwd)
        if decoy and decoy in sys.path: sys.path.remove(decoy)
        for a in locals().get('arch', []):
            try:
                if hasattr(a, '_conn') and a._conn: a._conn.close()
            except Exception: pass
        rm_rf(tmp)


# ------------------------------------------------------------------ monitor: the property itself, against a Python dict
def _kc(j): return json.dumps(j, sort_keys=True)


def monitor(tr):
    """C03 on the implementation trace: every operation must return what a dict holding the same contents returns,
    and leave the same contents.  One (the first) violation per trace: afterwards the reference is out of step."""
    cfg = tr['cfg']
    cv = dict(map(tuple, tr['lines'][0]['cv'])) if tr['lines'] else {}
    D = {'a': {}}                # handle name -> reference dict  (canonical key -> value id)
    A = {'a': {}}                # archive behind a cache
    cached = {'a': cfg['cached']}
    touched = set()
    def cause_of(keys_now, vids):
        names = {}
        for kc in touched | set(keys_now):
            k = unkj(json.loads(kc))
            names.setdefault(py_fname(k), set()).add(kc)
        if cfg['kind'] == 'dir' and any(len(s) > 1 for s in names.values()): return 'alias'
        if cfg['kind'] == 'file' and cfg['codec'] == 'json' and any('"s"' not in kc for kc in touched | set(keys_now)): return 'key-coerced'
        if any(cv.get(v) not in (v, None) for v in vids): return 'value-readback'
        return 'none'
    vids_seen = set()
    for rec in tr['recs']:
        line, out, obs = rec['line'], rec['out'], rec['obs']
        if line is None:
            if out.get('o') == 'eqd' and cfg['kind'] != 'null' and out['v'] != [True, True, False, False, False, True, False, False, False, False]:
                return [dict(prop='C03', i=rec['i'], sig=dict(backend=cfg['kind'], codec=cfg['codec'], cause='none', what='eq', op='eq'),
                             msg='%s archive: == / != against a dict_archive with the same contents and one with an extra key gave %r '
                                 '(a==same, same==a, a==diff, diff==a, a!=same, diff!=a, then == both ways against same-size archives whose one differing key holds None / 0)' % (cfg['kind'], out['v']))]
            if out.get('o') == 'eqd' and out.get('sib') not in (None, [True, True, False, False, False, True]):
                return [dict(prop='C03', i=rec['i'], sig=dict(backend=cfg['kind'], codec=cfg['codec'], cause='none', what='eq-same-basename', op='eq'),
                             msg='%s archive: a copy made under the same base name in another directory, then given one more entry: '
                                 '(a==copy, copy==a, a!=copy) before and after the extra entry gave %r, a dict gives [True, True, False, False, False, True]' % (cfg['kind'], out['sib']))]
            if out.get('o') == 'gettype' and out['got'] != out['want']:
                return [dict(prop='C03', i=rec['i'], sig=dict(backend=cfg['kind'], codec=cfg['codec'], cause='none', what='overwrite-by-an-equal-value-of-another-type', op='setitem'),
                             msg='%s archive (%s): key %s was assigned 1 and then True; it now holds a %s, a dict holds a %s' % (cfg['kind'], cfg['codec'], out['k'], out['got'], out['want']))]
            if out.get('o') == 'copyonto' and not out['ok']:
                return [dict(prop='C03', i=rec['i'], sig=dict(backend=cfg['kind'], codec=cfg['codec'], cause='none', what='copy-onto-existing', op='copy'),
                             msg='%s archive: copy(name) onto a name that already holds an archive %s; the target then holds %r, expected %r (the source when it returns, the untouched target when it refuses)' % (
                                 cfg['kind'], out['how'], out['got'], out['src']))]
            continue
        op, h = line['op'], line['h']
        d = D[h]
        exp = None; post = None
        ks = []
        null = cfg['kind'] == 'null' and not cached[h]
        if 'k' in line: ks = [_kc(line['k'])]
        if op == 'popkeys': ks = [_kc(k) for k in line['ks']]
        if op == 'update': ks = [_kc(k) for k, _ in line['kvs']]
        enc_fail = False
        if op == 'setitem':
            k, v = ks[0], line['v']; vids_seen.add(v)
            if cv.get(v) is None and not cached[h] and cfg['kind'] not in ('dict', 'null'):
                exp = 'ERR'; enc_fail = True
            else:
                exp = dict(o='unit')
                if not null: d[k] = v
        elif op == 'getitem': exp = dict(o='val', v=d[ks[0]]) if ks[0] in d else dict(o='err', v='KeyError')
        elif op == 'delitem':
            if ks[0] in d: del d[ks[0]]; exp = dict(o='unit')
            else: exp = dict(o='err', v='KeyError')
        elif op == 'contains': exp = dict(o='bool', v=ks[0] in d)
        elif op == 'len': exp = dict(o='nat', v=len(d))
        elif op == 'keys': exp = dict(o='keys', v=sorted(d))
        elif op == 'values': exp = dict(o='vals', v=sorted(d.values()))
        elif op == 'items': exp = dict(o='items', v=sorted([k, v] for k, v in d.items()))
        elif op == 'get': exp = dict(o='val', v=d.get(ks[0], line['d']))
        elif op == 'pop':
            if ks[0] in d: exp = dict(o='val', v=d.pop(ks[0]))
            elif line['d'] is not None: exp = dict(o='val', v=line['d'])
            else: exp = dict(o='err', v='KeyError')
        elif op == 'popitem':
            if not d: exp = dict(o='err', v='KeyError')
            else:
                c = _kc(line['choice']) if line.get('choice') is not None else None
                if c in d: exp = dict(o='pair', k=c, v=d.pop(c))
                else: exp = 'PRESENT-PAIR'
        elif op == 'popkeys':
            if line['d'] is not None:
                exp = dict(o='vlist', v=[d.pop(k, line['d']) for k in ks])
            elif len(set(ks)) == len(ks) and all(k in d for k in ks):
                exp = dict(o='vlist', v=[d.pop(k) for k in ks])
            else: exp = dict(o='err', v='KeyError')
        elif op == 'setdefault':
            k = ks[0]
            if k in d: exp = dict(o='val', v=d[k])
            else:
                v = line['d']; vids_seen.add(v)
                if cv.get(v) is None and not cached[h] and cfg['kind'] not in ('dict', 'null'): exp = 'ERR'; enc_fail = True
                else:
                    exp = dict(o='val', v=v)
                    if not null: d[k] = v
        elif op == 'update':
            exp = dict(o='unit')
            for k, v in line['kvs']:
                vids_seen.add(v)
                if not null: d[_kc(k)] = v
        elif op == 'clear': d.clear(); exp = dict(o='unit')
        elif op == 'copy':
            src = A[h] if cached[h] else D[h]
            D[line['to']] = dict(src); A[line['to']] = {}; cached[line['to']] = False
            exp = dict(o='unit')
        elif op == 'eq':
            a1 = A[h] if cached[h] else D[h]; o_ = line['o']; a2 = A[o_] if cached[o_] else D[o_]
            exp = dict(o='bool', v=a1 == a2)
        elif op == 'dump':
            if cfg['kind'] not in ('dict', 'null') and any(cv.get(v) is None for v in d.values()):
                return []        # archive.update(cache) meets an unencodable value: partial like dict.update; nothing more to say
            if cfg['kind'] != 'null': A[h].update(d)
            exp = dict(o='unit')
        elif op == 'load': d.update(A[h]); exp = dict(o='unit')
        touched.update(ks)
        # compare result
        bad = None
        if exp == 'ERR':
            if out.get('o') != 'err': bad = ('no-error', 'storing a value the encoder cannot encode did not raise')
        elif exp == 'PRESENT-PAIR':
            bad = ('result', 'popitem returned %r which is not a present pair' % (out,))
        elif out != exp:
            bad = ('result', '%s returned %r, a dict holding the same contents returns %r' % (op, out, exp))
        if not bad:
            for n_, o_ in obs.items():
                want_h = sorted([k, v] for k, v in D[n_].items())
                if cached[n_]:
                    want_a = sorted([k, v] for k, v in A[n_].items())
                    if o_['mem'] != want_h: bad = ('contents', 'cache %s holds %r, expected %r' % (n_, o_['mem'], want_h)); break
                else: want_a = want_h
                for view in ('items', 'arch'):
                    if o_[view] != want_a:
                        which = 'other-archive' if n_ != h and op not in ('copy',) else 'contents'
                        bad = (which, 'after %s on %s: %s of archive %s is %r, a dict would hold %r' % (op, h, view, n_, o_[view], want_a)); break
                if bad: break
        if bad:
            cause = cause_of(ks, vids_seen)
            sig = dict(backend=cfg['kind'], codec=cfg['codec'], cause=cause, what=bad[0])
            if cause == 'none': sig['op'] = op
            if enc_fail: sig['encfail'] = True
            return [dict(prop='C03', i=rec['i'], sig=sig, msg='%s archive (%s%s): %s' % (cfg['kind'], cfg['codec'], ', cached' if cfg['cached'] else '', bad[1]))]
    return []


# ------------------------------------------------------------------ correspondence with the Lean model
def canon_model_out(o):
    o = dict(o)
    if o.get('o') == 'keys': o['v'] = sorted(_kc(k) for k in o['v'])
    elif o.get('o') == 'vals': o['v'] = sorted(o['v'])
    elif o.get('o') == 'items': o['v'] = sorted([_kc(k), v] for k, v in o['v'])
    elif o.get('o') == 'pair': o['k'] = _kc(o['k'])
    return o


def canon_model_kv(l):
    if l is None or l == 'EXC': return l
    return sorted(([_kc(k), v] for k, v in l), key=lambda p: p[0])


def work(a):
    tier, idx = a
    cfg, ops = gen(tier, idx)
    return run_trace(cfg, ops)


NONTRIV = ('err:KeyError', 'popitem', 'popkeys', 'copy', 'eq', 'err:Other', 'dump', 'load')


def check_pool():
    """the key pool of the main stream must be the pool the Lean theorems `mainPool_*` / `concrete_dirCodecOK` talk about"""
    outs = run_driver([json.dumps(dict(suite='backend', op='cfg', kind='dict', ck='id', cv=[], cached=False)), json.dumps(dict(op='pool', h='a'))])
    lean = sorted(_kc(k) for k in outs[1]['pool'])
    mine = sorted({kcanon(k) for ks in MAIN_KEYS.values() for k in ks})
    if lean != mine:
        raise NoVerdict('key pool of suite backend differs from Klepto.Backend.mainPool: only-lean %r only-harness %r' % (
            sorted(set(lean) - set(mine)), sorted(set(mine) - set(lean))))


def _analyse(prop, trs):
    check_pool()
    lines = []
    for tr in trs: lines += [json.dumps(l) for l in tr['lines']]
    outs = run_driver(lines) if lines else []
    pos = 0
    divs, viols = [], []
    tags = collections.Counter()
    nontrivial = set()
    for tr in trs:
        n = len(tr['lines'])
        mo = outs[pos + 1:pos + n]; pos += n
        tags.update(tr['tags'])
        tags['stream:' + tr['cfg']['stream']] += 1
        if any(tr['tags'].get(t) for t in NONTRIV):
            nontrivial.add(hashlib.sha256(json.dumps([tr['cfg'], tr['ops']], default=repr).encode()).hexdigest())
        for rec, m in zip([r_ for r_ in tr['recs'] if r_['line'] is not None], mo):
            if 'bad-op' in m: raise NoVerdict('driver rejected %r: %r' % (rec['line'], m))
            mout = canon_model_out(m['out'])
            msys = {h: dict(mem=canon_model_kv(s['mem']), arch=canon_model_kv(s['arch'])) for h, s in m['sys'].items()}
            isys = {h: dict(mem=s['mem'], arch=s['arch']) for h, s in rec['obs'].items()}
            isys_items = {h: dict(mem=s['mem'], arch=s['items']) for h, s in rec['obs'].items()}
            if mout != rec['out'] or msys != isys or msys != isys_items:
                divs.append(dict(detail=dict(i=rec['i'], op=rec['op'], line=rec['line'], impl=dict(out=rec['out'], sys=isys, items=isys_items),
                                             model=dict(out=mout, sys=msys)), cfg=tr['cfg'], ops=tr['ops']))
                break
        for v in monitor(tr):
            viols.append(dict(v, cfg=tr['cfg'], ops=tr['ops']))
    return divs, viols, tags, len(nontrivial)


def slash_probe(a):
    """keys that contain the path separator (path-like arguments under a string keymap, urls): a dir_archive names one directory per key
    after the key's text.  Monitor only (the model has flat names): the archive against a dict, step by step."""
    import klepto.archives as ka
    idx = a
    codec, opts = [('pickle', {}), ('json', dict(protocol='json')), ('pickle', dict(compression=3))][idx % 3]
    cached = (idx // 3) % 2 == 1
    tmp = scratch_dir('kbs'); viol = []
    try:
        A = ka.dir_archive(os.path.join(tmp, 'd'), cached=cached, **opts)
        H = A.archive if cached else A
        ref = {}
        steps = [('set', 'data/run1.csv', 1), ('set', 'plain', 3), ('set', 'data/run2.csv', 2), ('set', 'http://host/x', 4), ('del', 'data/run1.csv', None), ('set', 'data', 5)]
        for i, (op, k, v) in enumerate(steps):
            try:
                if op == 'set': H[k] = v; ref[k] = v
                else: del H[k]; del ref[k]
                got = dict(len=len(H), keys=sorted(map(str, H.keys())), items=sorted((str(k_), v_) for k_, v_ in H.items()),
                           has=[k_ in H for k_ in sorted(ref)], get=[H.get(k_) for k_ in sorted(ref)])
            except Exception as e:
                got = 'EXC %s: %s' % (type(e).__name__, str(e)[:60])
            want = dict(len=len(ref), keys=sorted(ref), items=sorted(ref.items()), has=[True] * len(ref), get=[ref[k_] for k_ in sorted(ref)])
            if got != want:
                viol.append(dict(prop='C03', i=i, sig=dict(backend='dir', codec=codec, cause='none', what='slash-key', op=op),
                                 msg='dir archive (%s): after %r of the key %r (keys so far %r) the archive reads %r, a dict %r' % (codec, op, k, sorted(ref), got, want),
                                 cfg=dict(slash=idx), ops=[]))
                break
        return dict(viol=viol, err=None)
    except Exception:
        import traceback
        return dict(viol=viol, err=traceback.format_exc()[-1000:])
    finally:
        rm_rf(tmp)


def explore(prop, tier):
    with Pool(NPROC) as p:
        trs = p.map(work, [(tier, i) for i in range(NTRACES[tier])], chunksize=4)
        sl = p.map(slash_probe, list(range(6)))
    errors = [t['err'] for t in trs if t['err']]
    trs = [t for t in trs if not t['err']]
    divs, viols, tags, nontriv = _analyse(prop, trs)
    errors += [o['err'] for o in sl if o['err']]
    viols = viols + [v for o in sl for v in o['viol']]
    tags = dict(tags); tags['slash-key-probe'] = len(sl)
    hist = collections.Counter('%s/%s%s%s' % (t['cfg']['kind'], t['cfg']['codec'], json.dumps(t['cfg']['opts'], sort_keys=True) if t['cfg']['opts'] else '',
                                              '+cache' if t['cfg']['cached'] else '') for t in trs)
    return dict(suite='backend', traces=len(trs), evaluations=sum(len(t['recs']) for t in trs), distinct_nontrivial=nontriv,
                tags=dict(tags), divergences=divs, violations=viols,
                samples=[dict(cfg=t['cfg'], ops=[repr(o)[:80] for o in t['ops'][:8]]) for t in trs[:2]],
                errors=errors, rule=RULE,
                required_tags=['err:KeyError', 'popitem', 'popkeys', 'copy', 'eq', 'setdefault', 'update', 'clear', 'stream:alias', 'stream:bad', 'err:Other'],
                config_histogram=dict(hist))


def _ser_ops(ops):
    """ops hold Python objects; replays store them pickled (hex) next to a readable form"""
    return dict(pickled=pickle.dumps(ops).hex(), readable=[repr(o)[:120] for o in ops])


def _deser_ops(o):
    return pickle.loads(bytes.fromhex(o['pickled']))


def replay(prop, obj):
    if isinstance(obj.get('cfg'), dict) and 'slash' in obj['cfg']:
        o = slash_probe(obj['cfg']['slash'])
        if o['err']: raise NoVerdict(o['err'])
        return dict(violations=[dict(prop='C03', sig=v['sig'], msg=v['msg'], i=v['i']) for v in o['viol']], divergence=None)
    ops = _deser_ops(obj['ops'])
    tr = run_trace(obj['cfg'], ops)
    if tr['err']: raise NoVerdict(tr['err'])
    divs, viols, _, _ = _analyse(prop, [tr])
    return dict(violations=[dict(prop='C03', sig=v['sig'], msg=v['msg'], i=v['i']) for v in viols],
                divergence=divs[0]['detail'] if divs else None)


def shrink_and_save(prop, v):
    cfg = v['cfg']
    if 'slash' in cfg:
        return write_replay(prop, 'violation', dict(suite='backend', property=prop, cfg=cfg, signature=v['sig'], message=v['msg'],
                                                     how_to_replay='cd /verif && ./check C03 --replay <this file>'))
    def fails(ops):
        tr = run_trace(cfg, ops)
        return (not tr['err']) and any(x['sig'] == v['sig'] for x in monitor(tr))
    ops = v['ops']
    cut = [o for o in ops]
    try:
        upto = max(j for j, o in enumerate(ops) if j <= v['i']) + 1
        if fails(ops[:upto]): cut = ops[:upto]
        cut = ddmin(cut, fails, 150)
    except Exception:
        cut = ops
    return write_replay(prop, 'violation', dict(suite='backend', property=prop, cfg=cfg, ops=_ser_ops(cut), signature=v['sig'], message=v['msg']))


def search(prop, tier, divergences, budget_s, known):
    import verdict
    t0 = time.time(); rnd = 0
    while time.time() - t0 < budget_s:
        with Pool(NPROC) as p:
            trs = p.map(work, [('search%d' % rnd, i) for i in range(NPROC * 8)])
        rnd += 1
        for tr in trs:
            if tr['err']: continue
            for v in monitor(tr):
                if not verdict.match_known(prop, v['sig'], known):
                    return shrink_and_save(prop, dict(v, cfg=tr['cfg'], ops=tr['ops']))
    return None


if __name__ == '__main__':
    tier = sys.argv[1] if len(sys.argv) > 1 else 'quick'
    r = explore('C03', tier)
    print(json.dumps({k: r[k] for k in ('traces', 'evaluations', 'distinct_nontrivial', 'tags', 'config_histogram')}, indent=1))
    print('errors', len(r['errors'])); [print(e) for e in r['errors'][:3]]
    print('divergences', len(r['divergences']))
    seen = set()
    for d in r['divergences']:
        key = (d['cfg']['kind'], d['cfg']['codec'], d['cfg']['stream'], d['detail']['op'][0])
        if key in seen: continue
        seen.add(key)
        print(json.dumps(dict(cfg=d['cfg'], detail=d['detail']), default=repr)[:1800]); print()
        if len(seen) > 12: break
    print('violations', len(r['violations']))
    c = collections.Counter(json.dumps(v['sig'], sort_keys=True) for v in r['violations'])
    for s, n in c.most_common(): print(n, s)
    seen = set()
    for v in r['violations']:
        s = json.dumps(v['sig'], sort_keys=True)
        if s in seen: continue
        seen.add(s); print(v['msg'][:500]); print()
