"""suite `session` (C17): keys in fresh interpreters with different PYTHONHASHSEED / process state / keyword
order must be byte-identical; a writer session followed by a reader session must load, not miss"""
import os, sys, json, time, subprocess, collections, itertools
from multiprocessing.pool import ThreadPool
from common import *

RULE = ('generated calls (ints, floats, strs, tuples, None, nested lists) keyed in fresh interpreters with PYTHONHASHSEED in {0, 1, 4242, random}, '
        'different import order / interned-string noise and permuted keyword order, for raw/string/pickle/named-hash keymaps x flat x typed x sentinel x ignore; '
        'then writer session -> exit -> reader session over file/dir/sqlite archives; non-trivial = an item with keyword permutation, typed keys, a sentinel or ignore')
KMS = [('raw', {}), ('raw', {'typed': True}), ('string', {}), ('string', {'typed': True}), ('string', {'sentinel': True}), ('pickle', {}), ('picklep', {}),
       ('md5', {}), ('md5', {'typed': True, 'sentinel': True}), ('sha256', {}), ('string', {'flat': False}), ('pickle', {'flat': False, 'typed': True}),
       ('raw', {'sentinel': True}), ('dill2', {}), ('stringr', {}), ('stringu', {'typed': True})]
import hashlib
def _alt_algorithms():
    """named algorithms outside hashlib.algorithms_guaranteed (served by OpenSSL through hashlib.new only)"""
    out = []
    for a in sorted(hashlib.algorithms_available - hashlib.algorithms_guaranteed):
        try: hashlib.new(a, b'x').hexdigest(); out.append(a)
        except Exception: pass
    return [a for a in out if a.islower()][:2]
KMS = KMS + [(a, {}) for a in _alt_algorithms()]
def _spelled_algorithms():
    """other spellings that hashlib.new accepts here (OpenSSL's own names: upper case, dashes, digest size appended): a user may
    name the algorithm as the `openssl` tool does, and several guaranteed names are prefixes of these"""
    out = []
    for a in ('sha512-256', 'SHA512-224', 'MD5-SHA1', 'SHA256', 'SHA3-256', 'BLAKE2b512', 'SHAKE-128'):
        try: hashlib.new(a, b'x').hexdigest(); out.append(a)
        except Exception: pass
    return out
KMS = KMS + [(a, {}) for a in _spelled_algorithms()]
VALS = ['1', '2.5', "'a'", 'None', '(1, 2)', '-7', "'x y'", '0.1', '[1, 2]', 'True', '10**12', "'z'", "'L' * 250",
        "Decimal('2.665')", 'Fraction(1, 3)', '2.675', "{'p': 1, 'q': 2, 'r': 3}"]      # (no sets: the repr of a set of strings is itself process-dependent - outside the property)
VALS2 = [v for v in VALS if v not in ('[1, 2]', "'L' * 250", "{'p': 1, 'q': 2, 'r': 3}", "Decimal('2.665')", 'Fraction(1, 3)')]        # (a 250-character argument makes keys no file name can hold)
SEEDS = ['0', '1', '4242', 'random']
NITEMS = {'quick': 40, 'thorough': 400}
NSESS = {'quick': 18, 'thorough': 150}


def child(job, hashseed, tmp):
    p = os.path.join(tmp, 'job_%d_%s.json' % (abs(hash(json.dumps(job, sort_keys=True))) % 10 ** 9, hashseed))
    json.dump(job, open(p, 'w'))
    env = dict(os.environ, PYTHONHASHSEED=hashseed, PYTHONPATH=REPO + os.pathsep + os.path.dirname(os.path.abspath(__file__)))
    r = subprocess.run([sys.executable, os.path.join(os.path.dirname(os.path.abspath(__file__)), 'session_child.py'), p],
                       stdout=subprocess.PIPE, stderr=subprocess.PIPE, text=True, env=env, cwd=tmp, timeout=300)
    if r.returncode != 0:
        return dict(error=r.stderr[-1500:])
    return json.loads(r.stdout.strip().splitlines()[-1])


def gen_call(r, func, VALS=VALS):
    if func == 'f1':
        args = [r.choice(VALS) for _ in range(r.choice([1, 2, 3]))]
        kw = [(n, r.choice(VALS)) for n in r.sample(['p', 'q', 'r', 's'], r.choice([0, 1, 2, 3]))]
        if len(args) == 1 and r.random() < .5: kw.append(('y', r.choice(VALS)))
    elif func == 'f2':
        names = ['alpha', 'beta', 'gamma']
        npos = r.choice([0, 1, 2, 3]); args = [r.choice(VALS) for _ in range(npos)]
        kw = [(n, r.choice(VALS)) for n in names[npos:] if n != 'gamma' or r.random() < .6]
    elif func == 'f3':
        a, b = r.choice(['1', '1.0', '2', '2.0', 'True']), r.choice(['1', '1.0', '3', "'s'"])
        form = r.choice([0, 1, 2])
        args, kw = [[a, b], []], None
        if form == 0: args, kw = [a, b], []
        elif form == 1: args, kw = [a], [('factor', b)]
        else: args, kw = [], [('value', a), ('factor', b)]
    else:
        args = [r.choice(VALS)]; kw = [(n, r.choice(VALS)) for n in r.sample(['v', 'p', 'q'], r.choice([0, 1, 2]))]
    return dict(args=args, kw=kw)


def permute(r, call):
    kw = list(call['kw']); r.shuffle(kw)
    return dict(args=call['args'], kw=kw)


def explore(prop, tier, off=0):
    tmp = scratch_dir('ks')
    try:
        r = rng('session', tier, off)
        items = []
        for i in range(NITEMS[tier]):
            func = r.choice(['f1', 'f1', 'f2', 'f3', 'm'])
            km = KMS[i % len(KMS)]
            ign = r.choice([[], [], [], ['y'], [0], ['*'], ['q', 'p'], ['**'], ['alpha', 'beta']]) if func in ('f1', 'f2') else []
            calls = [gen_call(r, func) for _ in range(5)]
            items.append(dict(func=func, km=km, ignore=ign, calls=calls, tol=(2 if i % 4 == 1 else None), deep=(i % 8 == 1)))
        # fixed strata: every session makes LITERALLY the same call (positional, nothing to permute): whatever differs then comes from the
        # process alone. Several name-ignored parameters without defaults under keymaps that encode the keyword dict as it is ordered
        for km in (('string', {'flat': False}), ('md5', {'flat': False}), ('pickle', {'flat': False})):
            items.append(dict(func='f4', km=km, ignore=['alpha', 'beta', 'gamma', 'delta'], tol=None, deep=False,
                              calls=[dict(args=['1', '2', '3', '4', '5'], kw=[]), dict(args=["'a'", '2.5', 'None', '4', '(1, 2)'], kw=[])]))
        # each session sees the same calls, with its own keyword order and its own process noise
        jobs = []
        for si, hs in enumerate(SEEDS):
            rr = rng('session-perm', tier, off, si)
            its = [dict(it, calls=[permute(rr, c) if si else c for c in it['calls']]) for it in items]
            # every session also keys the calls in its own order: a key must not depend on what the process keyed before
            jobs.append((dict(mode='keys', items=its, noise=si * 7, shuffle=si * 1000 + 17), hs))
        with ThreadPool(len(jobs)) as p:
            outs = p.map(lambda j: child(j[0], j[1], tmp), jobs)
        errors = [o['error'] for o in outs if 'error' in o]
        viols, tags = [], collections.Counter()
        nontrivial = 0
        if not errors:
            pos = 0
            for it in items:
                n = len(it['calls'])
                rows = [o['keys'][pos:pos + n] for o in outs]; pos += n
                kmk, kmo = it['km']
                tags['km=' + kmk] += 1
                if it['ignore'] or kmo.get('typed') or kmo.get('sentinel') or any(len(c['kw']) > 1 for c in it['calls']): nontrivial += 1
                for ci in range(n):
                    col = [row[ci] for row in rows]
                    tags['keyed-call'] += 1
                    if len(set(col)) > 1 and not all(c.startswith('EXC') for c in col):
                        flat = kmo.get('flat', True)
                        # did the sessions spell the call differently (keyword order)? if every session made literally the same call, the
                        # difference comes from the process alone (hash seed, noise) - not the keyword-order leak F11 lists
                        ii = items.index(it)
                        spellings = set(json.dumps(j[0]['items'][ii]['calls'][ci]['kw']) for j in jobs)
                        viols.append(dict(prop='C17', i=0, sig=dict(kind='key-differs-across-sessions', keymap=kmk, flat=flat, typed=bool(kmo.get('typed')),
                                                                     sentinel=bool(kmo.get('sentinel')), ignore_names=len([x for x in it['ignore'] if isinstance(x, str)]),
                                                                     kw_order_only=(not flat), same_spelling=len(spellings) == 1),
                                          msg='%s%r ignore=%r %s%r: keys in %d sessions (PYTHONHASHSEED %s, permuted keyword order): %s' % (
                                              kmk, kmo, it['ignore'], it['func'], it['calls'][ci], len(col), SEEDS, ' | '.join(c[:120] for c in sorted(set(col)))),
                                          cfg=dict(item=it, call=ci), ops=[]))
        # writer / reader sessions
        sess = []
        for i in range(NSESS[tier]):
            func = r.choice(['f1', 'f2', 'f3'])
            km = r.choice([k for k in KMS if k[0] != 'raw' or True])
            arch = ['file', 'dir', 'sql'][i % 3]
            if arch == 'sql' and km[0] in ('raw', 'pickle', 'picklep') : km = ('string', {})
            if arch == 'sql' and not km[1].get('flat', True): km = ('md5', {})
            if arch == 'dir' and km[0] == 'raw': km = ('string', {'typed': True})
            algo = r.choice(['lru', 'lfu', 'mru', 'rr', 'inf', 'no'])
            ign = r.choice([[], [], ['y'], [0]]) if func == 'f1' else []
            # fixed strata: raw keys that contain klepto's marker objects (NULL from an ignore specification, the SENTINEL) stored through
            # a pickling archive - the markers must come back as the same objects in the later session
            if i % 6 == 0: func, km, ign = 'f1', ('raw', {}), ['y']
            if i % 6 == 3: func, km, ign = 'f1', ('raw', {'sentinel': True}), [0]
            # fixed stratum: a non-flat text keymap on a function called with several keywords (the later session spells them in another order)
            if i % 6 == 1: func, km, ign = 'f2', (['string', 'pickle'][(i // 6) % 2], {'flat': False}), []
            calls = [gen_call(r, func, VALS2) for _ in range(6)]
            # (unhashable arguments make a safe decorator evaluate directly every time: not a key-stability matter)
            calls = [dict(args=[a for a in c['args'] if a != '[1, 2]'] or ["'u'"], kw=[(n, v) for n, v in c['kw'] if v != '[1, 2]']) if func == 'f1' else c for c in calls]
            sess.append(dict(func=func, km=km, archive=arch, algo=algo, safe=r.random() < .5, maxsize=r.choice([2, 50]), ignore=ign, calls=calls))
        def run_pair(a):
            i, it = a
            path = os.path.join(tmp, 'arch%d' % i)
            rr = rng('session-perm2', tier, off, i)
            w = child(dict(mode='writer', item=it, path=path, noise=3), SEEDS[i % 4], tmp)
            # the later session spells keywords in another order AND makes the calls in the opposite order
            it2 = dict(it, calls=[permute(rr, c) for c in it['calls']][::-1])
            rd = child(dict(mode='reader', item=it2, path=path, noise=10), SEEDS[(i + 1) % 4], tmp)
            if 'calls' in rd: rd['calls'] = rd['calls'][::-1]
            return it, w, rd
        with ThreadPool(NPROC) as p:
            pairs = p.map(run_pair, list(enumerate(sess)))
        for it, w, rd in pairs:
            if 'error' in w or 'error' in rd:
                e = (w.get('error') or rd.get('error'))
                viols.append(dict(prop='C17', i=0, sig=dict(kind='session-crashed', archive=it['archive'], keymap=it['km'][0]),
                                  msg='writer/reader session failed: %s' % e[-400:], cfg=dict(item=it), ops=[]))
                continue
            tags['session-pair'] += 1; tags['archive=' + it['archive']] += 1
            re_evals = sum(c['evals'] for c in rd['calls'])
            if re_evals or rd['info'][1] or [c['result'] for c in rd['calls']] != [c['result'] for c in w['calls']]:
                kmk, kmo = it['km']
                viols.append(dict(prop='C17', i=0, sig=dict(kind='second-session-recomputes', keymap=kmk, flat=kmo.get('flat', True), typed=bool(kmo.get('typed')),
                                                             sentinel=bool(kmo.get('sentinel')), ignore=bool(it['ignore']), archive=it['archive']),
                                  msg='%s.%s over %s_archive, %s%r ignore=%r: the later session re-evaluated %d calls (info %r; first session %r); archive keys %s' % (
                                      'safe' if it['safe'] else 'klepto', it['algo'], it['archive'], kmk, kmo, it['ignore'], re_evals, rd['info'], w['info'], w['archive_keys'][:4]),
                                  cfg=dict(item=it), ops=[]))
        return dict(suite='session', traces=len(items) + len(sess), evaluations=tags['keyed-call'] * len(SEEDS) + tags['session-pair'] * 12,
                    distinct_nontrivial=nontrivial, tags=dict(tags), divergences=[], violations=viols,
                    samples=[dict(item=items[0]), dict(session=sess[0])], errors=errors[:2], rule=RULE,
                    required_tags=['keyed-call', 'session-pair', 'archive=file', 'archive=dir', 'archive=sql'], config_histogram=None)
    finally:
        rm_rf(tmp)


def replay(prop, obj):
    case = obj.get('case') or {}
    if (obj.get('signature') or {}).get('kind') == 'key-differs-across-sessions' and 'item' in case:
        # deterministic: the one item keyed, as it is, in four fresh interpreters with the four hash seeds
        it = case['item']; ci = case.get('call', 0)
        tmp = scratch_dir('ks')
        try:
            outs = [child(dict(mode='keys', items=[it], noise=si * 7, shuffle=0), hs, tmp) for si, hs in enumerate(SEEDS)]
        finally:
            rm_rf(tmp)
        errs = [o['error'] for o in outs if 'error' in o]
        if errs: raise NoVerdict(errs[0])
        col = [o['keys'][ci] for o in outs]
        viol = []
        if len(set(col)) > 1:
            viol.append(dict(prop='C17', i=0, sig=dict(obj['signature'], same_spelling=True), msg='the same call keyed in four sessions: ' + ' | '.join(c[:120] for c in sorted(set(col)))))
        return dict(violations=viol, divergence=None)
    raise NoVerdict('suite session replays are regenerated from the seed: VERIF_SEED=%s ./check %s' % (obj.get('seed'), prop))


def shrink_and_save(prop, v):
    return write_replay(prop, 'violation', dict(suite='session', property=prop, seed=SEED, case=v['cfg'], signature=v['sig'], message=v['msg']))


def search(prop, tier, divergences, budget_s, known):
    return None
