"""suite `sites` (C18): the key computation is spelled out 36 times (12 decorator classes x wrapper/key/lookup in klepto/_cache.py
and klepto/safe.py).  The Lean model has ONE key function; this suite re-reads the current source on every run and checks that
each of the 36 sites is the same pipeline, in the same order:
    _args, _kwds = rounded_args(*args, **kwds)
    _args, _kwds = _keygen(user_function, ignore, *_args, **_kwds)
    key = keymap(*_args, **_kwds)            (key(): `return keymap(...)`, lookup(): `return cache[keymap(...)]`)
A site that deviates is a correspondence break for C18 (the behavioural suites then look for a failing input)."""
import ast, os, collections
from common import *

RULE = ('static: the 36 key-computation sites of klepto/_cache.py and klepto/safe.py are extracted from the current source (ast) and compared with the '
        'pipeline the model encodes (rounded_args -> _keygen(user_function, ignore, ...) -> keymap); non-trivial = every site')
CANON = ['_args, _kwds = rounded_args(*args, **kwds)', '_args, _kwds = _keygen(user_function, ignore, *_args, **_kwds)']
LAST = {'wrapper': 'key = keymap(*_args, **_kwds)', 'key': 'return keymap(*_args, **_kwds)', 'lookup': 'return cache[keymap(*_args, **_kwds)]'}


def key_sites():
    out = collections.OrderedDict()
    for mod in ('_cache', 'safe'):
        src = open(os.path.join(REPO, 'klepto', mod + '.py')).read()
        tree = ast.parse(src)
        for cls in [n for n in tree.body if isinstance(n, ast.ClassDef)]:
            call = [n for n in cls.body if isinstance(n, ast.FunctionDef) and n.name == '__call__']
            if not call: continue
            for fn in [n for n in ast.walk(call[0]) if isinstance(n, ast.FunctionDef) and n.name in ('wrapper', 'key', 'lookup')]:
                stmts = []
                for st in ast.walk(fn):
                    if isinstance(st, (ast.Assign, ast.AugAssign, ast.Return, ast.Expr)):
                        d = ast.unparse(st)
                        if 'rounded_args' in d or '_keygen' in d or 'keymap' in d: stmts.append((st.lineno, d))
                out[(mod, cls.name, fn.name)] = [d for _, d in sorted(stmts)]
    return out


def explore(prop, tier):
    sites = key_sites()
    divs = []
    for (mod, cls, fn), stmts in sites.items():
        want = CANON + [LAST[fn]]
        if stmts != want:
            divs.append(dict(detail=dict(what='key-computation site differs from the pipeline of the model', site='klepto/%s.py %s.%s()' % (mod, cls, fn),
                                         source=stmts, expected=want), cfg=dict(site=[mod, cls, fn])))
    errors = []
    if len(sites) != 36: errors.append('expected 36 key-computation sites (12 decorator classes x wrapper/key/lookup), found %d' % len(sites))
    return dict(suite='sites', traces=len(sites), evaluations=len(sites), distinct_nontrivial=len(sites), tags={'site': len(sites)}, divergences=divs, violations=[],
                samples=[dict(site=list(k), pipeline=v) for k, v in list(sites.items())[:2]], errors=errors, rule=RULE, required_tags=['site'], config_histogram=None)


def replay(prop, obj):
    r = explore(prop, 'quick')
    return dict(violations=[], divergence=r['divergences'][0]['detail'] if r['divergences'] else None)


def shrink_and_save(prop, v):
    return write_replay(prop, 'violation', dict(suite='sites', property=prop, detail=v))


def search(prop, tier, divergences, budget_s, known):
    return None
