"""suite `fs` (C13): kill the writer before every mutating file-system call of an archive operation,
let a fresh process read the archive, and compare with (a) the property (AtomicView: each touched key old or new,
untouched keys unchanged, no error, no never-stored key) and (b) Lean model M8 (program of system calls and the
view `recover` computes for every crash state).

Kill points are taken at Python level: every `os.mkdir/rename/replace/unlink/remove/rmdir` and every file opened for
writing under the archive's parent directory is gated (`fs_child.py`); the gate is validated against `strace` on every
run (same mutating sequence).  sqlite writes happen inside the sqlite library: there the kills are injected at the real
system calls with `strace -e inject=...:signal=SIGKILL`."""
import os, sys, json, time, subprocess, collections, pickle, hashlib, re, shutil
from multiprocessing.pool import ThreadPool
from common import *
from pcanon import kj, kcanon, canonv, canon_items

HERE = os.path.dirname(os.path.abspath(__file__))
RULE = ('one archive operation (set new / overwrite / delete / pop / update / clear / popitem / setdefault / popkeys / dump from a cache / open) on a '
        'file{pickle,json,source} or dir{pickle,json,source,compressed} archive with 0-3 prior entries: the writer is killed before EVERY gated '
        'file-system call (and in the middle of every write), a fresh process then reads len/keys/__asdict__/items/cache.load(); compared with the '
        'property (AtomicView) and with Lean model M8 state by state; sqlite: kills injected by strace at every write-class system call of the '
        'statement; non-trivial = case with at least 3 crash points')
NCASES = {'quick': 112, 'thorough': 896}
NSQL = {'quick': 6, 'thorough': 48}
CONFIGS = [('file', 'pickle', {}), ('dir', 'pickle', {}), ('file', 'json', dict(protocol='json')), ('dir', 'json', dict(protocol='json')),
           ('dir', 'pickle', dict(compression=3)), ('file', 'source', dict(serialized=False)), ('dir', 'source', dict(serialized=False)), ('dir', 'pickle', {})]
KEYS = {'pickle': ['a', 'b', 'k1', 7, 'p-q', (1, 2)], 'json': ['a', 'b', 'k1', 'p-q'], 'source': ['a', 'b', 'k1', 7]}
FKEYS = {'pickle': ['a', 'b', 'k1', 7, 'p-q', (1, 2)], 'json': ['a', 'b', 'k1', 'p-q'], 'source': ['a', 'b', 'k1', 7, (1, 2)]}
LONGKEY = 'L' + 'o' * 231 + 'g'
VALS = {'pickle': [1, 'v', (2, 3), [4], None, 2.5], 'json': [1, 'v', [4], None, 2.5], 'source': [1, 'v', (2, 3), [4], None, 2.5]}
OPKINDS = ['set-new', 'set-over', 'set-over', 'del', 'pop', 'update', 'clear', 'popitem', 'setdefault-new', 'popkeys', 'dump', 'open', 'open-cached', 'del-missing']


def gen(tier, idx):
    r = rng('fs', tier, idx)
    kind, codec, opts = CONFIGS[idx % len(CONFIGS)]
    keys = list((KEYS if kind == 'dir' else FKEYS)[codec]); r.shuffle(keys)
    vals = VALS[codec]
    nprior = r.choice([0, 1, 2, 3])
    # stratum (every third dir_archive case): the entry operated on has a key of 233 characters - a legal file name with little room
    # left for whatever a write protocol appends or prepends to it
    longkey = kind == 'dir' and idx % 3 == 0
    if longkey: keys = [LONGKEY] + keys; nprior = max(1, nprior) if (idx // 3) % 4 else 0
    prior = [(k, r.choice(vals)) for k in keys[:nprior]]
    present = [k for k, _ in prior]; absent = keys[nprior:]
    if longkey and present: present = [LONGKEY]       # (the choices below fall on it)
    ok = OPKINDS[(idx // len(CONFIGS)) % len(OPKINDS)]
    newv = lambda old=None: r.choice([v for v in vals if v != old])
    if ok in ('set-over', 'del', 'pop', 'popitem', 'popkeys') and not present: ok = 'set-new'
    if ok == 'set-new': op = ['setitem', absent[0], newv()]
    elif ok == 'set-over': k = r.choice(present); op = ['setitem', k, newv(dict(prior)[k])]
    elif ok == 'del': op = ['delitem', r.choice(present)]
    elif ok == 'del-missing': op = ['pop', absent[0]]
    elif ok == 'pop': op = ['pop', r.choice(present)]
    elif ok == 'update':
        kv = [(absent[0], newv())] + ([(present[0], newv(dict(prior)[present[0]]))] if present else [])
        r.shuffle(kv); op = ['update', kv]
    elif ok == 'clear': op = ['clear']
    elif ok == 'popitem': op = ['popitem']
    elif ok == 'setdefault-new': op = ['setdefault', absent[0], newv()]
    elif ok == 'popkeys': op = ['popkeys', present[:2]]
    elif ok == 'dump':
        kv = [(absent[0], newv())] + ([(present[0], newv(dict(prior)[present[0]]))] if present else [])
        op = ['dump', kv]
    elif ok == 'open': op = ['open', False]
    else: op = ['open', True]
    cfg = dict(kind=kind, codec=codec, opts=opts)
    if kind == 'file' and prior and r.random() < 0.4: cfg['symlink'] = True       # the archive is reached through a symbolic link
    return cfg, prior, op


def loc_of(cfg, tmp):
    if cfg['kind'] == 'file':
        ext = '.py' if cfg['opts'].get('serialized') is False else ('.json' if cfg['opts'].get('protocol') == 'json' else '.pkl')
        return os.path.join(tmp, 'arch' + ext)
    if cfg['kind'] == 'dir': return os.path.join(tmp, 'archdir')
    return 'sqlite:///%s' % os.path.join(tmp, 'arch.db')


def child(job, tmp, tag):
    p = os.path.join(tmp, 'job_%s.json' % tag)
    json.dump(job, open(p, 'w'))
    env = dict(os.environ, PYTHONPATH=REPO + os.pathsep + HERE, PYTHONDONTWRITEBYTECODE='1')
    r = subprocess.run([sys.executable, os.path.join(HERE, 'fs_child.py'), p], stdout=subprocess.PIPE, stderr=subprocess.STDOUT, text=True,
                       env=env, cwd=tmp, timeout=120)
    out = json.load(open(p + '.out.json')) if os.path.exists(p + '.out.json') else None
    log = json.load(open(p + '.log.json')) if os.path.exists(p + '.log.json') else None
    return r.returncode, out, log, r.stdout[-800:]


def fs_scratch(cfg, prior, op):
    """scratch directory of a case: every other case lives on /dev/shm (another file system than the system temp directory)"""
    import tempfile
    h = int(hashlib.sha256(repr((cfg, prior, op)).encode()).hexdigest(), 16)
    if h % 2 and os.path.isdir('/dev/shm') and os.access('/dev/shm', os.W_OK) and not os.environ.get('VERIF_SCRATCH'):
        return tempfile.mkdtemp(prefix='kf_', dir='/dev/shm')
    return scratch_dir('kf')


def one_crash(cfg, prior, op, kill_at, torn, base=None):
    """fresh directory, writer (killed before its kill_at-th gated call, or run to completion), then a reader process"""
    import tempfile
    tmp = tempfile.mkdtemp(prefix='kf_', dir=base) if base else fs_scratch(cfg, prior, op)
    try:
        loc = loc_of(cfg, tmp)
        job = dict(role='run', cfg=cfg, loc=loc, root=tmp, prior=pickle.dumps(prior).hex(), op=pickle.dumps(op).hex(), kill_at=kill_at, torn=torn)
        rc, out, log, tail = child(job, tmp, 'w')
        if kill_at is None and (rc != 0 or out is None or 'error' in (out or {})): return dict(error='writer failed: %s %r' % (tail, out))
        if kill_at is not None and rc != 137: return dict(error='writer was not killed at %r (rc %r): %s' % (kill_at, rc, tail))
        for f in os.listdir(tmp):
            if f.startswith('job_'): os.remove(os.path.join(tmp, f))
        rc2, rd, _, tail2 = child(dict(role='read', cfg=cfg, loc=loc, root=tmp), tmp, 'r')
        if rd is None: return dict(error='reader failed: ' + tail2)
        return dict(log=(log or {}).get('log'), read=rd, wexc=(out or {}).get('exc'))
    finally:
        rm_rf(tmp)


def norm_log(cfg, log):
    """gate log -> effective calls in the vocabulary of model M8; returns (calls, raw index of each call)"""
    calls, idxs = [], []
    temps = {}
    def name(x):
        if x.startswith('K_.I_') or x.startswith('.I_'):
            if x not in temps: temps[x] = len(temps)
            return 't%d' % temps[x]
        return x[2:] if x.startswith('K_') else x
    for i, e in enumerate(log):
        kind, path = e[0], e[1]
        if kind == 'close': continue
        if cfg['kind'] == 'dir':
            parts = path.split(os.sep)
            if parts[0] != 'archdir': continue
            if len(parts) == 1: continue                               # rmdir(root) = ENOTEMPTY, removedirs() of os.renames
            d = name(parts[1])
            if len(parts) == 2:
                if kind == 'rename': c = ['rename', d, '/'.join(name(x) for x in e[2].split(os.sep)[1:]) if e[2] else 'OUTSIDE-THE-ARCHIVE']
                else: c = [kind, d]                                     # mkdir / rmdir
            else:
                which = 'In' if parts[2].startswith(('input', '__args__')) else 'Out'
                if parts[2] == '__pycache__': continue
                if len(parts) > 3 or kind not in ('creat', 'write', 'unlink'):
                    c = [kind, d + '/' + '/'.join(name(x) for x in parts[2:])]      # a shape the protocol model does not have: shows up as a program divergence
                else: c = [dict(creat='creat', write='write', unlink='unlink')[kind] + which, d]
        else:
            if path == '.': continue
            if kind == 'rename': c = ['rename', name(path)] + ([] if len(e) < 3 or e[2] == 'arch' + os.path.splitext(e[2] or '')[1] else ['to:' + str(e[2])])
            elif kind == 'unlink': c = ['unlinkTarget'] if not path.startswith('.I_') else ['unlinkTemp', name(path)]
            else: c = [kind, name(path)]
        calls.append(c); idxs.append(i)
    return calls, idxs


def canon_view(cfg, rd):
    """what the fresh process saw, as {'err': ...} or sorted [key, value] pairs; staging names normalised"""
    def fix(items):
        out = []
        for k, v in items:
            kk = json.loads(k)
            if 's' in kk and kk['s'].startswith('.I_'): k = json.dumps({'s': '.I_TMP'})
            out.append([k, v])
        return sorted(out)
    if 'open' in rd: return dict(err='open:' + rd['open'])
    for f in ('asdict', 'items', 'load', 'keys', 'len'):
        if isinstance(rd.get(f), str) and rd[f].startswith('EXC'): return dict(err='%s:%s' % (f, rd[f]))
    a, it, ld = fix(rd['asdict']), fix(rd['items']), fix(rd['load'])
    if a != it or a != ld: return dict(err='views disagree: asdict %r items %r load %r' % (a, it, ld))
    if rd['len'] != len(a) or len(rd['keys']) != len(a): return dict(err='len/keys disagree with items: len %r keys %r items %r' % (rd['len'], rd['keys'], a))
    return dict(items=a)


def apply_ref(prior, op):
    """old and new contents and the touched keys, as a dict would have them (the property's oracle)"""
    old = collections.OrderedDict((kcanon(k), json.dumps(canonv(v), sort_keys=True)) for k, v in prior)
    new = collections.OrderedDict(old); touched = set()
    k = op[0]
    cv = lambda v: json.dumps(canonv(v), sort_keys=True)
    if k == 'setitem': new[kcanon(op[1])] = cv(op[2]); touched = {kcanon(op[1])}
    elif k in ('delitem', 'pop'): new.pop(kcanon(op[1]), None); touched = {kcanon(op[1])}
    elif k in ('update', 'dump'):
        for a, b in op[1]: new[kcanon(a)] = cv(b); touched.add(kcanon(a))
    elif k == 'clear': touched = set(new); new.clear()
    elif k == 'popitem': touched = set(new); new = None                 # any one present key may go
    elif k == 'setdefault':
        if kcanon(op[1]) not in new: new[kcanon(op[1])] = cv(op[2])
        touched = {kcanon(op[1])}
    elif k == 'popkeys':
        for a in op[1]: new.pop(kcanon(a), None); touched.add(kcanon(a))
    return old, new, touched


def atomic_view(cfg, prior, op, view, where):
    """the property on one recovered view; returns None or (what, message)"""
    old, new, touched = apply_ref(prior, op)
    if 'err' in view: return ('error', 'a fresh process cannot read the archive after a kill %s: %s' % (where, view['err']))
    d = dict(map(tuple, view['items']))
    if op[0] == 'popitem':
        gone = [k for k in old if k not in d]
        if len(gone) > 1 or any(k not in old or d[k] != old[k] for k in d):
            return ('contents', 'after a kill %s the archive holds %r (before: %r)' % (where, d, dict(old)))
        return None
    for k in set(d) | set(old) | set(new):
        o, n, s = old.get(k), new.get(k), d.get(k)
        if k in touched:
            if s != o and s != n:
                what = 'absent' if s is None else ('phantom' if o is None and n is None else 'other-value')
                return (what, 'after a kill %s key %s reads %r: neither its previous value %r nor the new one %r' % (where, k, s, o, n))
        elif s != o:
            what = 'phantom' if o is None else ('untouched-lost' if s is None else 'untouched-changed')
            return (what, 'after a kill %s the untouched key %s reads %r, it held %r' % (where, k, s, o))
    return None


# ------------------------------------------------------------------ two crashes in a row (monitor only)
NDOUBLE = {'quick': 10, 'thorough': 80}


def _pyapply(d, op):
    d = dict(d)
    if op[0] == 'setitem': d[op[1]] = op[2]
    elif op[0] in ('delitem', 'pop'): d.pop(op[1], None)
    return d


def _canon_dict(d):
    return sorted([kcanon(k), json.dumps(canonv(v), sort_keys=True)] for k, v in d.items())


def double_case(a):
    """a writer is killed inside op1, a second writer (same archive, whatever the first left behind) performs op2 - to completion or
    killed as well -, then a fresh process reads: the contents must be one of the four dicts {S0, op1(S0), op2(S0), op2(op1(S0))}"""
    import tempfile, shutil
    tier, idx = a
    r = rng('fs-double', tier, idx)
    dirs = [c for c in CONFIGS if c[0] == 'dir']
    kind, codec, opts = dirs[idx % len(dirs)]
    cfg = dict(kind=kind, codec=codec, opts=opts)
    keys = list(KEYS[codec]); r.shuffle(keys)
    vals = VALS[codec]
    prior = [(k, r.choice(vals)) for k in keys[:2]]
    k0 = prior[0][0]
    op1 = r.choice([['delitem', k0], ['pop', k0], ['setitem', keys[2], r.choice(vals)]])
    if op1[0] == 'setitem': op2 = r.choice([['pop', k0], ['delitem', prior[1][0]]])
    else: op2 = r.choice([['delitem', k0], ['pop', k0], ['pop', prior[1][0]]])      # (never an overwrite: that is the listed gap F19b)
    s0 = dict(prior)
    # variant `restore`: the key whose delete was interrupted is stored again (to completion) and deleted again (interrupted again):
    # whatever the first interrupted delete left behind must not get in the way of the second
    mid = None
    if op1[0] != 'setitem' and idx % 2 == 0:
        mid = ['setitem', k0, r.choice(vals)]; op2 = [r.choice(['delitem', 'pop']), k0]
        s1 = _pyapply(s0, mid)
        allowed = [_canon_dict(x) for x in (s1, _pyapply(s1, op2))]
    else:
        allowed = [_canon_dict(x) for x in (s0, _pyapply(s0, op1), _pyapply(s0, op2), _pyapply(_pyapply(s0, op1), op2))]
    out = dict(cfg=cfg, prior=prior, op=[op1, mid, op2], viol=[], n=0, err=None, idx=idx)
    base = fs_scratch(cfg, prior, op1)
    try:
        dry = one_crash(cfg, prior, op1, None, False)
        if 'error' in dry: out['err'] = dry['error']; return out
        _, idxs = norm_log(cfg, dry['log'])
        for raw1 in idxs:
            for kill2 in ((None, 'mid') if mid is None else (None, 1, 2, 3, 4, 5, 6, 7)):
                tmp = tempfile.mkdtemp(prefix='c_', dir=base)
                loc = loc_of(cfg, tmp)
                j1 = dict(role='run', cfg=cfg, loc=loc, root=tmp, prior=pickle.dumps(prior).hex(), op=pickle.dumps(op1).hex(), kill_at=raw1, torn=False)
                rc, _, _, tail = child(j1, tmp, 'w1')
                if rc != 137: out['err'] = 'first writer was not killed (rc %r): %s' % (rc, tail); return out
                k2 = None
                if mid is not None:
                    rcm, om, _, tailm = child(dict(role='run', cfg=cfg, loc=loc, root=tmp, prior=pickle.dumps([]).hex(), op=pickle.dumps(mid).hex(), kill_at=None, torn=False, skip_prior=True), tmp, 'wm')
                    if rcm != 0: out['err'] = 'the restoring writer failed: %s' % tailm; return out
                j2 = dict(role='run', cfg=cfg, loc=loc, root=tmp, prior=pickle.dumps([]).hex(), op=pickle.dumps(op2).hex(), kill_at=None, torn=False, skip_prior=True)
                if kill2 == 'mid':
                    # (how many gated calls op2 makes depends on what the first writer left behind: count them on a copy)
                    cp = tempfile.mkdtemp(prefix='d_', dir=base); os.rmdir(cp); shutil.copytree(tmp, cp, symlinks=True)
                    _, _, logd, _ = child(dict(j2, loc=loc_of(cfg, cp), root=cp), cp, 'w2d')
                    n2 = len((logd or {}).get('log') or [])
                    if n2 < 2: continue
                    k2 = n2 // 2
                elif kill2 is not None:
                    k2 = kill2
                rc2, o2, _, tail2 = child(dict(j2, kill_at=k2), tmp, 'w2')
                if k2 is not None and rc2 != 137: continue            # fewer calls than on the copy: nothing to learn
                for f in os.listdir(tmp):
                    if f.startswith('job_'): os.remove(os.path.join(tmp, f))
                _, rd, _, tail3 = child(dict(role='read', cfg=cfg, loc=loc, root=tmp), tmp, 'r')
                if rd is None: out['err'] = 'reader failed: ' + tail3; return out
                view = canon_view(cfg, rd)
                out['n'] += 1
                where = 'first writer killed before its call #%d of %r, %ssecond writer %s %r' % (raw1, op1, ('then %r completed, ' % (mid,)) if mid else '', ('killed before its call #%d of' % k2) if k2 is not None else 'completed', op2)
                if 'err' in view:
                    out['viol'].append(dict(prop='C13', i=0, sig=dict(backend='dir', what='error', double=True), msg='dir archive (%s), prior %r: %s: a fresh process cannot read the archive: %s' % (codec, prior, where, view['err'])))
                elif sorted(view['items']) not in allowed:
                    out['viol'].append(dict(prop='C13', i=0, sig=dict(backend='dir', what='contents', double=True), msg='dir archive (%s), prior %r: %s: the archive holds %r, which is none of the four possible dicts' % (codec, prior, where, view['items'])))
                if out['viol']: return out
    except Exception:
        import traceback
        out['err'] = traceback.format_exc()[-1500:]
    finally:
        rm_rf(base)
    return out


# ------------------------------------------------------------------ Lean model
def model_case(cfg, prior, op, calls):
    """lines for the driver: one cfg + one `crash` op; the model answers with its program and the view of every crash state"""
    vals = {}
    def vid(v):
        c = json.dumps(canonv(v), sort_keys=True)
        if c not in vals: vals[c] = len(vals) + 1
        return vals[c]
    def needs_inp(k): return not (isinstance(k, str) and k.replace('-', '_') == k)
    inp_first = None
    for a, b in zip(calls, calls[1:]):
        if a[0] == 'unlinkIn' and b[0] == 'unlinkOut' and a[1] == b[1]: inp_first = True
        if a[0] == 'unlinkOut' and b[0] == 'unlinkIn' and a[1] == b[1]: inp_first = False
    line = dict(op='crash', kind=cfg['kind'], prior=[[kj(k), vid(v), needs_inp(k)] for k, v in prior], inpFirst=bool(inp_first))
    k = op[0]
    if k == 'setitem': line.update(what='set', kvs=[[kj(op[1]), vid(op[2]), needs_inp(op[1])]])
    elif k == 'setdefault': line.update(what='set', kvs=[[kj(op[1]), vid(op[2]), needs_inp(op[1])]])
    elif k in ('update', 'dump'): line.update(what='set', kvs=[[kj(a), vid(b), needs_inp(a)] for a, b in op[1]])
    elif k in ('delitem', 'pop'): line.update(what='del', ks=[kj(op[1])])
    elif k == 'popkeys': line.update(what='del', ks=[kj(a) for a in op[1]])
    elif k == 'clear': line.update(what='clear')
    elif k == 'popitem': line.update(what='popitem')
    elif k == 'open': line.update(what='open', cached=op[1])
    # listing order of the entries as the implementation met them (clear / popitem follow os.listdir)
    order = []
    for c in calls:
        if c[0] == 'rename' and len(c) == 3 and not c[1].startswith('t') and c[1] not in order: order.append(c[1])
        if c[0] in ('unlinkOut', 'unlinkIn', 'rmdir') and not c[1].startswith('t') and c[1] not in order: order.append(c[1])
    line['order'] = order
    return [dict(suite='fs', op='cfg'), line], {v: k for k, v in vals.items()}


def work(a):
    tier, idx = a
    cfg, prior, op = gen(tier, idx)
    return run_case(cfg, prior, op, tier)


def run_case(cfg, prior, op, tier='quick'):
    try:
        dry = one_crash(cfg, prior, op, None, False)
        if 'error' in dry: return dict(cfg=cfg, prior=prior, op=op, err=dry['error'])
        calls, idxs = norm_log(cfg, dry['log'])
        points = []                       # (effective index j, torn, raw kill index)
        for j, (c, i) in enumerate(zip(calls, idxs)):
            points.append((j, False, i))
            if c[0].startswith('write'): points.append((j, True, i))
        results = [dict(j=len(calls), torn=False, view=canon_view(cfg, dry['read']), raw=None)]
        for j, torn, raw in points:
            r = one_crash(cfg, prior, op, raw, torn)
            if 'error' in r: return dict(cfg=cfg, prior=prior, op=op, err=r['error'])
            results.append(dict(j=j, torn=torn, view=canon_view(cfg, r['read']), raw=raw))
        lines, vals = model_case(cfg, prior, op, calls)
        return dict(cfg=cfg, prior=prior, op=op, err=None, calls=calls, results=results, lines=lines, vals=vals, wexc=dry.get('wexc'))
    except Exception:
        import traceback
        return dict(cfg=cfg, prior=prior, op=op, err=traceback.format_exc()[-2000:])


def monitor(tr):
    viol = []
    cfg, prior, op = tr['cfg'], tr['prior'], tr['op']
    for res in tr['results']:
        if res['j'] == len(tr['calls']): where = 'after the operation completed'
        else: where = '%sbefore call #%d %r of %r' % ('in the middle of ' if res['torn'] else '', res['j'], tr['calls'][res['j']], [c[0] for c in tr['calls']])
        bad = atomic_view(cfg, prior, op, res['view'], where)
        if bad:
            nxt = tr['calls'][res['j']][0] if res['j'] < len(tr['calls']) else 'done'
            prev = tr['calls'][res['j'] - 1][0] if res['j'] > 0 else 'start'
            sig = dict(backend=cfg['kind'], op=op[0] if op[0] != 'setitem' else ('set-over' if any(k == op[1] for k, _ in prior) else 'set-new'),
                       what=bad[0], after=prev, before=nxt, torn=res['torn'])
            viol.append(dict(prop='C13', i=res['j'], sig=sig, msg='%s archive (%s) %r on prior %r: %s' % (cfg['kind'], cfg['codec'], op, prior, bad[1])))
    return viol


def _analyse(prop, trs):
    lines = []
    for tr in trs: lines += [json.dumps(l) for l in tr['lines']]
    outs = run_driver(lines) if lines else []
    divs, viols = [], []
    tags = collections.Counter(); nontrivial = 0
    pos = 0
    for tr in trs:
        m = outs[pos + 1]; pos += 2
        tags[tr['cfg']['kind'] + ':' + tr['op'][0]] += 1
        tags['crash-points'] += len(tr['results'])
        if len(tr['results']) >= 3: nontrivial += 1
        if 'bad-op' in m: raise NoVerdict('driver rejected %r: %r' % (tr['lines'][1], m))
        vals = tr['vals']
        if m['prog'] != tr['calls']:
            divs.append(dict(detail=dict(what='program', impl=tr['calls'], model=m['prog']), cfg=tr['cfg'], prior=tr['prior'], op=tr['op']))
        else:
            mstates = {(s['j'], s['torn']): s for s in m['states']}
            for res in tr['results']:
                ms = mstates.get((res['j'], res['torn']))
                if ms is None:
                    divs.append(dict(detail=dict(what='no model state', j=res['j'], torn=res['torn']), cfg=tr['cfg'], prior=tr['prior'], op=tr['op'])); break
                mv = dict(err='raises') if ms['view'] is None else dict(items=sorted([RBkc(k), vals.get(v, '?')] for k, v in ms['view']))
                iv = res['view'] if 'items' in res['view'] else dict(err='raises')
                if mv != iv:
                    divs.append(dict(detail=dict(what='view', j=res['j'], torn=res['torn'], call=(tr['calls'] + [['done']])[res['j']], impl=res['view'], model=mv),
                                     cfg=tr['cfg'], prior=tr['prior'], op=tr['op'])); break
        for v in monitor(tr): viols.append(dict(v, cfg=tr['cfg'], prior=tr['prior'], opx=tr['op']))
    return divs, viols, tags, nontrivial


def RBkc(k):
    if isinstance(k, dict) and 'temp' in k: return json.dumps({'s': '.I_TMP'})
    return json.dumps(k, sort_keys=True)


def explore(prop, tier):
    with ThreadPool(NPROC) as p:
        trs = p.map(work, [(tier, i) for i in range(NCASES[tier])])
    errors = [t['err'] for t in trs if t['err']]
    trs = [t for t in trs if not t['err']]
    divs, viols, tags, nontriv = _analyse(prop, trs)
    import run_fs_sql
    sq = run_fs_sql.explore_sql(tier, NSQL[tier])
    tags.update(sq['tags']); viols += sq['violations']; errors += sq['errors']; divs += sq['divergences']
    gate = run_fs_sql.validate_gate(tier)
    tags.update(gate['tags']); errors += gate['errors']
    with ThreadPool(NPROC) as p:
        dbl = p.map(double_case, [(tier, i) for i in range(NDOUBLE[tier])])
    for d in dbl:
        if d['err']: errors.append(d['err']); continue
        tags['double-crash'] += d['n']
        for v in d['viol']: viols.append(dict(v, cfg=d['cfg'], prior=d['prior'], op=d['op'], opx=d['op'], double=dict(tier=tier, idx=d['idx'])))
    return dict(suite='fs', traces=len(trs) + sq['cases'], evaluations=sum(len(t['results']) for t in trs) + sq['kills'], distinct_nontrivial=nontriv + sq['cases'],
                tags=dict(tags), divergences=divs, violations=viols,
                samples=[dict(cfg=t['cfg'], prior=repr(t['prior']), op=repr(t['op']), calls=t['calls']) for t in trs[:2]],
                errors=errors, rule=RULE, required_tags=['file:setitem', 'dir:setitem', 'dir:delitem', 'dir:clear', 'dir:update', 'file:open', 'sql:kills', 'gate-validated'],
                config_histogram=dict(collections.Counter('%s/%s' % (t['cfg']['kind'], t['cfg']['codec']) for t in trs)))


def replay(prop, obj):
    if 'double' in obj:
        d = double_case((obj['double']['tier'], obj['double']['idx']))
        if d['err']: raise NoVerdict(d['err'])
        return dict(violations=[dict(prop='C13', sig=v['sig'], msg=v['msg'], i=0) for v in d['viol']], divergence=None)
    prior = pickle.loads(bytes.fromhex(obj['prior'])); op = pickle.loads(bytes.fromhex(obj['op']))
    tr = run_case(obj['cfg'], prior, op)
    if tr['err']: raise NoVerdict(tr['err'])
    divs, viols, _, _ = _analyse(prop, [tr])
    return dict(violations=[dict(prop='C13', sig=v['sig'], msg=v['msg'], i=v['i']) for v in viols], divergence=divs[0]['detail'] if divs else None)


def shrink_and_save(prop, v):
    if 'double' in v:
        return write_replay(prop, 'violation', dict(suite='fs', property=prop, double=v['double'], readable=dict(prior=repr(v['prior']), ops=repr(v['op'])), signature=v['sig'], message=v['msg']))
    if 'sqlcase' in v:
        return write_replay(prop, 'violation', dict(suite='fs', property=prop, sqlcase=v['sqlcase'], signature=v['sig'], message=v['msg']))
    return write_replay(prop, 'violation', dict(suite='fs', property=prop, cfg=v['cfg'], prior=pickle.dumps(v['prior']).hex(), op=pickle.dumps(v['opx']).hex(),
                                                readable=dict(prior=repr(v['prior']), op=repr(v['opx'])), signature=v['sig'], message=v['msg']))


def search(prop, tier, divergences, budget_s, known):
    import verdict
    t0 = time.time(); rnd = 0
    while time.time() - t0 < budget_s:
        with ThreadPool(NPROC) as p:
            trs = p.map(work, [('search%d' % rnd, i) for i in range(NPROC * 2)])
        rnd += 1
        for tr in trs:
            if tr['err']: continue
            for v in monitor(tr):
                if not verdict.match_known(prop, v['sig'], known):
                    return shrink_and_save(prop, dict(v, cfg=tr['cfg'], prior=tr['prior'], opx=tr['op']))
    return None


if __name__ == '__main__':
    tier = sys.argv[1] if len(sys.argv) > 1 else 'quick'
    t0 = time.time()
    with ThreadPool(NPROC) as p:
        trs = p.map(work, [(tier, i) for i in range(NCASES[tier])])
    print('errors', [t['err'] for t in trs if t['err']][:3])
    trs = [t for t in trs if not t['err']]
    viols = []
    for tr in trs: viols += monitor(tr)
    c = collections.Counter(json.dumps(v['sig'], sort_keys=True) for v in viols)
    for s, n in sorted(c.items()): print(n, s)
    seen = set()
    for v in viols:
        s = json.dumps({k: x for k, x in v['sig'].items() if k in ('backend', 'what', 'op')}, sort_keys=True)
        if s in seen: continue
        seen.add(s); print(v['msg'][:600]); print()
    print('cases', len(trs), 'crash points', sum(len(t['results']) for t in trs), 'wall', time.time() - t0)
