"""verdict logic shared by all properties (DESIGN.md 3.4 - 3.7)"""
import os, sys, json, time, collections, importlib
from common import *

LEVEL_NOTES = {}

SUITE_MODULES = {
    'multi': 'run_multi',
    'wrapper': 'run_wrapper',
    'cache': 'run_cache',
    'clone': 'run_clone',
    'keys': 'run_keys',
    'round': 'run_round',
    'validate': 'run_validate',
    'backend': 'run_backend',
    'persist': 'run_persist',
    'fs': 'run_fs',
    'sched': 'run_sched',
    'session': 'run_session',
    'sites': 'run_sites',
}


def suites_of(prop):
    import check
    return check.SUITES.get(prop, [])


def match_known(prop, sig, known):
    for e in known:
        if e.get('property') == prop and e.get('status', 'open') == 'open' and sig_matches(e['signature'], sig):
            return e
    return None


def decide(prop, tier, replay, lean_side, t0):
    known = load_known_findings()
    mods = [importlib.import_module(SUITE_MODULES[s]) for s in suites_of(prop)]
    if not mods:
        raise NoVerdict('no suite registered for %s' % prop)
    if replay:
        obj = json.load(open(replay))
        mod = importlib.import_module(SUITE_MODULES[obj['suite']])
        r = mod.replay(prop, obj)
        print(json.dumps(r, indent=1, default=repr)[:6000])
        bad = [v for v in r.get('violations', []) if not match_known(prop, v['sig'], known)]
        if bad or r.get('divergence'):
            print('VIOLATION property=%s replay=%s%s' % (prop, replay, '' if bad else ' no-failing-input-found'))
            return 1
        return 0

    lean = lean_side(prop, tier)
    results = [m.explore(prop, tier) for m in mods]

    violations, divergences = [], []
    cov = dict(evaluations=0, traces_validated_against_impl=0, distinct_nontrivial=0, tags={}, samples=[], suites={})
    for m, r in zip(mods, results):
        violations += [dict(v, suite=r['suite']) for v in r['violations']]
        divergences += [dict(d, suite=r['suite']) for d in r['divergences']]
        cov['evaluations'] += r['evaluations']
        cov['traces_validated_against_impl'] += r['traces']
        cov['distinct_nontrivial'] += r['distinct_nontrivial']
        cov['samples'] += r['samples'][:3]
        cov['suites'][r['suite']] = dict(traces=r['traces'], ops=r['evaluations'], tags=r['tags'], rule=r['rule'],
                                         config_histogram=r.get('config_histogram'))
        missing = [t for t in r.get('required_tags', []) if not r['tags'].get(t)]
        if missing:
            raise NoVerdict('suite %s never exercised required branches %r (generator regression?)' % (r['suite'], missing))
        if r.get('errors'):
            raise NoVerdict('suite %s: harness errors: %s' % (r['suite'], r['errors'][0]))

    new_viol, known_hits = [], collections.OrderedDict()
    for v in violations:
        e = match_known(prop, v['sig'], known)
        if e: known_hits.setdefault(e['id'], [e, 0]); known_hits[e['id']][1] += 1
        else: new_viol.append(v)

    status = 0
    lines = []
    if new_viol:
        v = new_viol[0]
        mod = importlib.import_module(SUITE_MODULES[v['suite']])
        rp = mod.shrink_and_save(prop, v)
        lines.append('VIOLATION property=%s replay=%s' % (prop, rp))
        print('  monitor: %s  [%s]' % (v['msg'], json.dumps(v['sig'], sort_keys=True)))
        print('  (%d unlisted monitor violations in total, %d distinct signatures)' % (
            len(new_viol), len({json.dumps(x['sig'], sort_keys=True) for x in new_viol})))
        status = 1
    elif divergences or not lean['ok']:
        # proof or correspondence broke, and no monitor hit so far: search for a failing input
        found = None
        budget = 25 if tier == 'quick' else 300
        for m in mods:
            found = m.search(prop, tier, divergences, budget, known)
            if found: break
        if found:
            lines.append('VIOLATION property=%s replay=%s' % (prop, found))
        else:
            what = dict(property=prop, suite=None, reason=[], lean=lean)
            if divergences:
                d = divergences[0]
                what['suite'] = d['suite']
                what['reason'].append('correspondence: model and implementation differ on projection pi_%s' % prop)
                what['divergence'] = d
            if not lean['ok']:
                what['reason'].append('proof: ' + '; '.join(lean['problems'])[:2000])
            rp = write_replay(prop, 'unproved', what)
            lines.append('VIOLATION property=%s replay=%s no-failing-input-found' % (prop, rp))
            for r_ in what['reason']: print('  ' + r_[:600])
        status = 1

    # listed findings: re-confirm each one from its corpus replay
    confirmed = []
    for e in known:
        if e.get('property') != prop or e.get('status', 'open') != 'open':
            continue
        ok = None
        rp = e.get('replay')
        if rp and os.path.exists(os.path.join(VERIF, rp)):
            obj = json.load(open(os.path.join(VERIF, rp)))
            mod = importlib.import_module(SUITE_MODULES[obj['suite']])
            r = mod.replay(prop, obj)
            ok = any(sig_matches(e['signature'], v['sig']) for v in r.get('violations', []))
        hits = known_hits.get(e['id'], [e, 0])[1]
        confirmed.append(dict(id=e['id'], reproduced_from_corpus=ok, hits_this_run=hits))
        if ok or hits:
            lines.append('KNOWN-FINDING: property=%s %s [%s]' % (prop, e['summary'], e['id']))
        else:
            print('note: listed finding %s did not reproduce on this run' % e['id'])

    wall = time.time() - t0
    coverage = dict(
        obligations=lean['obligations'], discharged=lean['discharged'],
        checker_cmd='cd /verif/lean && lake build %s && lake env lean ../out/audit_%s.lean   (axiom audit of every theorem in namespace Klepto.%s)' % (lean.get('target'), prop, prop),
        trusted_base=['Lean 4.33.0 kernel', 'axioms: ' + ', '.join(sorted({a for t in lean['theorems'] for a in t['axioms']}) or ['none']),
                      'hand-written Lean model tied to /repo by the correspondence suites %s (Python harness + JSON-lines Lean driver)' % suites_of(prop),
                      'modelled, not verified: see DESIGN.md section 7'],
        theorems=[t['name'] for t in lean['theorems']],
        evaluations=cov['evaluations'], traces_validated_against_impl=cov['traces_validated_against_impl'],
        distinct_nontrivial=cov['distinct_nontrivial'],
        rule='; '.join('%s: %s' % (k, v['rule']) for k, v in cov['suites'].items()),
        samples=cov['samples'], suites=cov['suites'], known_findings=confirmed,
        correspondence_divergences=len(divergences), monitor_violations_unlisted=len(new_viol),
        lean_problems=lean['problems'], leanchecker=lean.get('leanchecker'))
    write_evidence(prop, tier, 'proof', coverage, wall, len(new_viol) + (1 if status and not new_viol else 0),
                   ['CPython dict/deque/heapq.nsmallest/random.choice semantics as modelled (DESIGN 7)',
                    'the correspondence holds beyond the generated traces only by the model/code reading'])
    for l in lines: print(l)
    print('%s tier=%s seed=%d: %d theorems (%d clean), %d traces / %d ops vs model, %d divergences, %d unlisted monitor violations, %.1fs' % (
        prop, tier, SEED, lean['obligations'], lean['discharged'], cov['traces_validated_against_impl'], cov['evaluations'],
        len(divergences), len(new_viol), wall))
    return status
