"""suite `sched` (C14): two or three real processes operate on one archive; every gated call of each process is
released by a scheduler, so the interleaving is chosen, recorded and replayable.

Scenarios (dir and file archives): writer || writer on distinct keys, writer || reader (lookup of another key, membership,
len, keys, __asdict__, items, bulk load), overwrite || reader, delete || reader, writer || opener.  Checked:
  monitor  - the property on what each process returned and on the final contents seen by a fresh process
  model    - Lean small-step model (M8 system calls for writers, helper-call steps for readers) replaying the same schedule
sqlite (locking inside the library): free-running concurrent processes, monitor only."""
import os, sys, json, time, subprocess, collections, pickle, hashlib, select
from multiprocessing.pool import ThreadPool
from common import *
from pcanon import kj, kcanon, canonv, canon_items
import run_fs as RF

HERE = os.path.dirname(os.path.abspath(__file__))
RULE = ('2-3 processes on one dir or file archive, each performing one operation; every mutating file-system call of a writer and every read helper '
        '(_lsdir/_hasinput/_lookup/exists; file: open for reading) of a reader is a scheduling point; schedules: seeded random, plus writer-first / reader-first / '
        'alternating; scenarios writer||writer (distinct keys), writer||reader, overwrite||reader, delete||reader, writer||opener; thorough adds system-call-level '
        'reader gates (monitor only); sqlite: free-running writers and readers, monitor only; non-trivial = schedule with at least one context switch')
NSCHED = {'quick': 320, 'thorough': 3840}
KEYS = ['a', 'b', 'k1', 7, 'p-q']
VALS = [1, 'v', (2, 3), None, 2.5]
SCEN = ['ww', 'ww', 'wr-other', 'wr-other', 'wr-list', 'wr-list', 'wr-list', 'over-r', 'over-list', 'del-r', 'del-list', 'www', 'f-wr', 'f-wo', 'f-wo', 'f-wr',
        'q-ww', 'q-over-r', 'q-wr-list', 'q-upd-r', 'q-hold', 'wr-list-fine', 'wr-list-fine', 'over-len', 'f-upd-list', 'q-clear-r']


MONITOR_ONLY = ('f-upd-list',)         # scenarios the schedule model does not replay (multi-entry update of a file archive against bulk views)


def gen(tier, idx):
    r = rng('sched', tier, idx)
    sc = SCEN[idx % len(SCEN)]
    kind = 'file' if sc.startswith('f-') else ('sql' if sc.startswith('q-') else 'dir')
    cfg = dict(kind=kind, codec='pickle', opts={})
    keys = list(KEYS if kind != 'sql' else ['a', 'b', 'k1', 7, 'c']); r.shuffle(keys)
    VALS = [1, 'v', None, 2.5, b'by'] if kind == 'sql' else globals()['VALS']
    nprior = r.choice([1, 2, 3])
    prior = [(k, r.choice(VALS)) for k in keys[:nprior]]
    present = [k for k, _ in prior]; absent = keys[nprior:]
    nv = lambda old=None: r.choice([v for v in VALS if v != old])
    procs = []
    listing = lambda: [r.choice(['keys', 'asdict', 'items', 'load', 'len'])]
    if sc == 'ww': procs = [('writer', ['setitem', absent[0], nv()]), ('writer', ['setitem', absent[1], nv()])]
    elif sc == 'www': procs = [('writer', ['setitem', absent[0], nv()]), ('writer', ['setitem', absent[1], nv()]), ('reader', listing())]
    elif sc == 'wr-other': procs = [('writer', ['setitem', absent[0], nv()]), ('reader', [r.choice(['getitem', 'contains', 'get']), present[0]])]
    elif sc in ('wr-list', 'wr-list-fine'): procs = [('writer', ['setitem', absent[0], nv()]), ('reader', listing())]
    elif sc == 'over-r': k = present[0]; procs = [('writer', ['setitem', k, nv(dict(prior)[k])]), ('reader', [r.choice(['getitem', 'contains', 'get']), k])]
    elif sc == 'over-len':
        # an overwrite (or a delete) of an existing key while another process asks for len(): one answer, at every position of the writer's run
        k = present[0]; procs = [('writer', r.choice([['setitem', k, nv(dict(prior)[k])], ['setitem', k, nv(dict(prior)[k])], ['delitem', k]])), ('reader', ['len'])]
    elif sc == 'over-list': k = present[0]; procs = [('writer', ['setitem', k, nv(dict(prior)[k])]), ('reader', listing())]
    elif sc == 'del-r': k = present[0]; procs = [('writer', [r.choice(['delitem', 'pop']), k]), ('reader', [r.choice(['getitem', 'contains', 'get']), k])]
    elif sc == 'del-list': k = present[0]; procs = [('writer', [r.choice(['delitem', 'pop']), k]), ('reader', listing())]
    elif sc == 'f-wr': procs = [('writer', ['setitem', r.choice(keys), nv()]), ('reader', [r.choice(['asdict', 'getitem', 'len']), present[0]][:2])]
    elif sc == 'f-upd-list':
        # a single-file archive: one update() of two existing entries (and a new one) while another process takes a bulk view
        # (items / __asdict__ / cache.load()): the view is the whole earlier or the whole later dictionary
        while len(prior) < 2: prior = prior + [(keys[len(prior)], r.choice(VALS))]
        present = [k for k, _ in prior]; absent = [k for k in keys if k not in present]
        procs = [('writer', ['update', [(present[0], nv(dict(prior)[present[0]])), (present[1], nv(dict(prior)[present[1]])), (absent[0], nv())]]),
                 ('reader', [['load', 'items', 'asdict'][(idx // len(SCEN)) % 3]])]
    elif sc == 'f-wo': procs = [('writer', ['setitem', absent[0], nv()]), ('writer', ['open', False])]
    elif sc == 'q-ww': procs = [('writer', ['setitem', absent[0], nv()]), ('writer', ['setitem', absent[1], nv()])]
    elif sc == 'q-over-r': k = present[0]; procs = [('writer', ['setitem', k, nv(dict(prior)[k])]), ('reader', [r.choice(['getitem', 'contains', 'get', 'asdict']), k])]
    elif sc == 'q-wr-list': procs = [('writer', ['setitem', absent[0], nv()]), ('reader', [r.choice(['keys', 'asdict', 'items', 'len'])])]
    elif sc == 'q-upd-r': k = present[0]; procs = [('writer', ['update', [(k, nv(dict(prior)[k])), (absent[0], nv())]]), ('reader', [r.choice(['getitem', 'get', 'asdict']), k])]
    elif sc == 'q-clear-r':
        # clear() of a table while another process reads it: the reader never fails (a key that is gone is a KeyError, like in a dict)
        procs = [('writer', ['clear']), ('reader', [[r.choice(['getitem', 'contains', 'get']), present[0]], ['len'], ['keys'], ['asdict']][(idx // len(SCEN)) % 4])]
    elif sc == 'q-hold':
        # the key has a history of assignments (several rows); a reader tests membership and then idles with its handle open
        k = present[0]; prior = prior + [(k, nv(dict(prior)[k]))]
        procs = [('writer', ['setitem', absent[0], nv()]), ('reader', ['contains-hold', k])]
    if sc == 'q-over-r' and procs[1][1][0] == 'asdict': procs[1] = ('reader', ['asdict'])
    if sc == 'q-upd-r' and procs[1][1][0] == 'asdict': procs[1] = ('reader', ['asdict'])
    if sc == 'f-wr' and procs[1][1][0] in ('asdict', 'len'): procs[1] = ('reader', [procs[1][1][0]])
    policy = r.choice(['random', 'random', 'random', 'first', 'second', 'alternate', 'after-rename', 'after-rename'])
    if sc == 'q-hold': policy = 'hold'
    # (the reader takes k steps, the writer does ALL its work, the reader finishes: the whole update lands between two of the reader's reads)
    if sc == 'f-upd-list': policy = 'rpos:%d' % (1 + (idx // (3 * len(SCEN))) % 4)
    if sc in ('f-wr', 'wr-other', 'over-r', 'del-r', 'q-over-r', 'q-upd-r', 'over-len', 'q-clear-r'):
        # the reader takes one step: put it at every position of the writer's run in turn (exhaustive for these scenarios)
        policy = 'pos:%d' % ((idx // len(SCEN)) % 16)
    # every 8th dir schedule gates the readers at system-call level (scandir / stat / lstat / open) instead of helper level:
    # finer interleavings than the model replays - those are monitored only
    fine = kind == 'dir' and (idx // len(SCEN)) % 8 == 7 and any(role == 'reader' for role, _ in procs)
    if fine and policy.startswith('pos:'): policy = 'random'
    if sc == 'wr-list-fine':
        # readers gated at system-call level; the writer is advanced j steps after the reader's k-th call, then the reader finishes:
        # enumerates where the writer's staging directory / rename falls between the reader's own directory scans and stats
        fine = True
        n = (idx // len(SCEN)) * 2 + (1 if idx % len(SCEN) == 22 else 0)
        policy = 'wpos:%d:%d' % (1 + n % 10, [2, 3, 6, 9][(n // 10) % 4])
        if idx % len(SCEN) == 22:
            # three phases: the writer makes its staging directory (and maybe fills it), the reader lists, the writer renames the staging
            # directory into place, the reader goes on with what it listed
            # (the writer's fifth step is the rename)
            # and the reader's listing is: one scandir, then a stat + lstat per directory found (the prior entries and the staging directory),
            # then whatever it does with the list: the rename is placed right after that first pass, and one call before / after it)
            kwalk = 1 + 2 * (nprior + 1)
            policy = 'wrr:%d:%d' % [(1, kwalk), (4, kwalk), (2, kwalk), (1, kwalk + 1), (1, kwalk - 1), (3, kwalk)][(idx // len(SCEN)) % 6]
    # every third schedule runs its processes as forked children of one parent that has imported klepto (a process pool), the others as
    # separately started interpreters
    return dict(cfg=cfg, scen=sc, prior=prior, procs=procs, policy=policy, seed=r.randrange(10 ** 9), fine=fine, forked=(idx // len(SCEN)) % 3 == 1)


class Child:
    def __init__(self, job, tmp, tag, spawn=True):
        c2p_r, c2p_w = os.pipe(); p2c_r, p2c_w = os.pipe()
        job = dict(job, ctl_w=c2p_w, ctl_r=p2c_r)
        p = os.path.join(tmp, 'job_%s.json' % tag); json.dump(job, open(p, 'w'))
        self.jobfile, self.child_fds = p, (c2p_w, p2c_r)
        self.r, self.w = c2p_r, p2c_w
        self.buf = b''; self.done = None; self.pending = None; self.proc = None
        if spawn: self.spawn(tmp)
    def spawn(self, tmp):
        env = dict(os.environ, PYTHONPATH=REPO + os.pathsep + HERE, PYTHONDONTWRITEBYTECODE='1')
        self.proc = subprocess.Popen([sys.executable, os.path.join(HERE, 'sched_child.py'), self.jobfile], env=env, cwd=tmp, pass_fds=self.child_fds,
                                     stdout=subprocess.PIPE, stderr=subprocess.STDOUT)
        for fd in self.child_fds: os.close(fd)
    @staticmethod
    def spawn_forked(kids, tmp):
        """the processes are FORKED from one parent that has already imported klepto (a multiprocessing pool with the fork start method)"""
        gp = os.path.join(tmp, 'job_group.json'); json.dump([k.jobfile for k in kids], open(gp, 'w'))
        env = dict(os.environ, PYTHONPATH=REPO + os.pathsep + HERE, PYTHONDONTWRITEBYTECODE='1')
        fds = tuple(fd for k in kids for fd in k.child_fds)
        proc = subprocess.Popen([sys.executable, os.path.join(HERE, 'sched_child.py'), '--group', gp], env=env, cwd=tmp, pass_fds=fds,
                                stdout=subprocess.PIPE, stderr=subprocess.STDOUT, start_new_session=True)
        proc._group = True
        for fd in fds: os.close(fd)
        for k in kids: k.proc = proc
    def next_msg(self, timeout=60):
        while b'\n' not in self.buf:
            rl, _, _ = select.select([self.r], [], [], timeout)
            if not rl: return dict(error='timeout')
            chunk = os.read(self.r, 65536)
            if not chunk:
                return dict(error='child died: ' + (self.proc.stdout.read().decode()[-600:] if self.proc.stdout else ''))
            self.buf += chunk
        line, self.buf = self.buf.split(b'\n', 1)
        return json.loads(line)
    def go(self): os.write(self.w, b'g')
    def close(self):
        for fd in (self.r, self.w):
            try: os.close(fd)
            except OSError: pass
        try:
            if getattr(self.proc, '_group', False): os.killpg(self.proc.pid, 9)      # the parent and its forked workers
            else: self.proc.kill()
        except Exception: pass
        self.proc.wait()


def run_schedule(case):
    cfg, prior, procs = case['cfg'], case['prior'], case['procs']
    tmp = scratch_dir('ksch')
    kids = []
    try:
        loc = RF.loc_of(cfg, tmp)
        job0 = dict(role='run', cfg=cfg, loc=loc, root=tmp, prior=pickle.dumps(prior).hex(), op=pickle.dumps(None).hex(), nogate=True)
        rc, _, _, tail = RF.child(job0, tmp, 'setup')
        if rc != 0: return dict(case=case, err='setup failed: ' + tail)
        forked = bool(case.get('forked'))
        for i, (role, op) in enumerate(procs):
            kids.append(Child(dict(role=role, cfg=cfg, loc=loc, root=tmp, op=pickle.dumps(op).hex(), fine=case.get('fine', False)), tmp, 'p%d' % i, spawn=not forked))
        if forked: Child.spawn_forked(kids, tmp)
        for k in kids:
            m = k.next_msg()
            if 'ready' not in m: return dict(case=case, err='child not ready: %r' % m)
        r = rng_for(case['seed'], 'schedule')
        # a process starts (runs up to its first gated call) only when the scheduler says so: 'start' is a scheduling point too
        for k in kids: k.pending = dict(g=['start', '.'])
        sched = []; last = None; forced = case.get('schedule')
        step = 0
        while any(k.pending for k in kids):
            live = [i for i, k in enumerate(kids) if k.pending]
            if forced is not None:
                i = forced[step] if step < len(forced) and forced[step] in live else live[0]
            elif case['policy'] == 'random': i = r.choice(live)
            elif case['policy'] == 'after-rename':
                # writer 0 up to and including its first rename, then everybody else, then the rest
                renamed = any(e[0] == 0 and e[1] == 'rename' for e in sched)
                others = [j for j in live if j != 0]
                i = 0 if (0 in live and not renamed) or not others else others[0]
            elif case['policy'].startswith('pos:'):
                kpos = int(case['policy'][4:]); done0 = len([e for e in sched if e[0] == 0])
                others = [j for j in live if j != 0]
                i = 0 if (0 in live and done0 < kpos) or not others else others[0]
            elif case['policy'].startswith('wpos:'):
                kpos, jw = map(int, case['policy'][5:].split(':'))
                done1 = len([e for e in sched if e[0] == 1]); done0 = len([e for e in sched if e[0] == 0])
                if 1 in live and done1 < kpos: i = 1
                elif 0 in live and done0 < jw: i = 0
                elif 1 in live: i = 1
                else: i = live[0]
            elif case['policy'].startswith('rpos:'):
                kr = int(case['policy'][5:]); done1 = len([e for e in sched if e[0] == 1])
                i = 1 if (1 in live and done1 < kr) or 0 not in live else 0
            elif case['policy'].startswith('wrr:'):
                # writer w1 steps; reader kr calls; writer UNTIL IT HAS RENAMED its staging directory into place; reader to its end; writer's rest
                w1, kr = map(int, case['policy'][4:].split(':'))
                done1 = len([e for e in sched if e[0] == 1]); done0 = len([e for e in sched if e[0] == 0])
                renamed = any(e[0] == 0 and e[1] == 'rename' and 'K_.I_' in str(e[2]) for e in sched)       # (the rename OF the staging directory)
                if 0 in live and done0 < 1 + w1: i = 0
                elif 1 in live and done1 < 1 + kr: i = 1
                elif 0 in live and not renamed: i = 0
                elif 1 in live: i = 1
                else: i = live[0]
            elif case['policy'].startswith('wrw:'):
                w1, kr, jw = map(int, case['policy'][4:].split(':'))
                done1 = len([e for e in sched if e[0] == 1]); done0 = len([e for e in sched if e[0] == 0])
                # (each process's 'start' is a step of its own)
                if 0 in live and done0 < 1 + w1: i = 0
                elif 1 in live and done1 < 1 + kr: i = 1
                elif 0 in live and done0 < 1 + w1 + jw: i = 0
                elif 1 in live: i = 1
                else: i = live[0]
            elif case['policy'] == 'hold':
                # the reader runs until it idles; then the writer does all its work; then the reader goes on
                parked = kids[1].pending and kids[1].pending['g'][0] == 'idle'
                i = 1 if (1 in live and not parked) or 0 not in live else 0
            elif case['policy'] == 'first': i = live[0]
            elif case['policy'] == 'second': i = live[-1]
            else: i = [j for j in live if j != last][0] if len(live) > 1 and last in live else live[0]
            k = kids[i]
            sched.append([i] + k.pending['g'])
            last = i; step += 1
            k.go(); m = k.next_msg()
            if 'done' in m: k.done = m['done']; k.pending = None
            elif 'g' in m: k.pending = m
            else: return dict(case=case, err='child %d: %r' % (i, m))
            if step > 2000: return dict(case=case, err='schedule too long')
        results = [k.done for k in kids]
        for k in kids: k.close()
        kids = []
        for f in os.listdir(tmp):
            if f.startswith('job_'): os.remove(os.path.join(tmp, f))
        rc2, rd, _, tail2 = RF.child(dict(role='read', cfg=cfg, loc=loc, root=tmp), tmp, 'final')
        if rd is None: return dict(case=case, err='final reader failed: ' + tail2)
        errs = [x.get('error') for x in results if x and x.get('error')]
        if errs: return dict(case=case, err='child error: ' + errs[0])
        return dict(case=case, err=None, sched=sched, results=[x['res'] for x in results], final=RF.canon_view(cfg, rd))
    except Exception:
        import traceback
        return dict(case=case, err=traceback.format_exc()[-1500:])
    finally:
        for k in kids: k.close()
        rm_rf(tmp)


# ------------------------------------------------------------------ monitor
def cvj(v): return json.dumps(canonv(v), sort_keys=True)


def monitor(tr):
    """C14 on what the processes returned"""
    case = tr['case']; cfg = case['cfg']; prior = case['prior']; procs = case['procs']
    old = {kcanon(k): cvj(v) for k, v in prior}
    stored = collections.defaultdict(set)                  # every value ever stored for a key
    for k, v in old.items(): stored[k].add(v)
    new = dict(old); touched = set(); removed = set()
    for role, op in procs:
        if role != 'writer': continue
        if op[0] == 'setitem': new[kcanon(op[1])] = cvj(op[2]); stored[kcanon(op[1])].add(cvj(op[2])); touched.add(kcanon(op[1]))
        elif op[0] in ('delitem', 'pop'): new.pop(kcanon(op[1]), None); touched.add(kcanon(op[1])); removed.add(kcanon(op[1]))
        elif op[0] == 'clear': touched |= set(new); removed |= set(new); new = {}
        elif op[0] == 'update':
            for a_, b_ in op[1]: new[kcanon(a_)] = cvj(b_); stored[kcanon(a_)].add(cvj(b_)); touched.add(kcanon(a_))
    viol = []
    def bad(who, what, msg):
        nsw = len([1 for a, b in zip(tr['sched'], tr['sched'][1:]) if a[0] != b[0]])
        viol.append(dict(prop='C14', i=0, sig=dict(backend=cfg['kind'], scen=case['scen'], who=who, what=what),
                         msg='%s archive, %s, prior %r, processes %r, schedule %s: %s' % (cfg['kind'], case['scen'], prior, procs,
                             ''.join(str(s[0]) for s in tr['sched']), msg)))
    # final contents
    fin = tr['final']
    if 'err' in fin: bad('final', 'error', 'a fresh process cannot read the archive afterwards: %s' % fin['err'])
    else:
        d = dict(map(tuple, fin['items']))
        if d != new:
            lost = [k for k in new if k not in d]
            bad('final', 'lost-entry' if lost else 'contents', 'final contents %r, expected %r' % (d, new))
    for (role, op), res in zip(procs, tr['results']):
        if isinstance(res, str) and res.startswith('EXC'):
            if role == 'writer': bad('writer', 'error', 'writer %r failed: %s' % (op, res))
            else:
                # a KeyError for a key that is absent at some point of the run is what a dict answers
                k = kcanon(op[1]) if len(op) > 1 else None
                legit = op[0] == 'getitem' and res.startswith('EXC:KeyError') and k is not None and (k not in old or k in removed)
                if not legit: bad('reader', 'error', 'reader %r failed: %s' % (op, res))
            continue
        if role != 'reader': continue
        if 'val' in res:
            k = kcanon(op[1])
            if res['val'] == cvj('<<DEFAULT>>'):
                if k in old and k not in removed: bad('reader', 'absent', 'get(%s) found nothing although the key is stored throughout' % k)
            elif res['val'] not in stored[k]: bad('reader', 'value', 'lookup of %s returned %s, never stored for it (%r)' % (k, res['val'], sorted(stored[k])))
        elif 'bool' in res:
            k = kcanon(op[1])
            if res['bool'] is False and k in old and k not in removed: bad('reader', 'absent', '%s in archive is False although the key is stored throughout' % k)
            if res['bool'] is True and not stored[k]: bad('reader', 'phantom', '%s in archive is True although it was never stored' % k)
        elif 'nat' in res:
            lo = len([k for k in old if k not in touched or (k in new and k not in removed)]); hi = len(set(old) | set(new))
            if not (lo <= res['nat'] <= hi): bad('reader', 'len-below' if res['nat'] < lo else 'len-above', 'len() = %d, outside [%d, %d]' % (res['nat'], lo, hi))
        elif 'keys' in res:
            for k in res['keys']:
                if not stored[k]: bad('reader', 'phantom', 'keys() lists %s, never stored' % k); break
            for k in old:
                if k not in touched and k not in res['keys']: bad('reader', 'absent', 'keys() misses the untouched key %s' % k); break
        elif 'items' in res:
            d = dict(map(tuple, res['items']))
            for k, v in d.items():
                if not stored[k]: bad('reader', 'phantom', '%s lists %s, never stored' % (op[0], k)); break
                if v not in stored[k]: bad('reader', 'value', '%s gives %s -> %s, never stored for it' % (op[0], k, v)); break
            if cfg['kind'] == 'file' and len([1 for role_, _ in procs if role_ == 'writer']) == 1 and d != old and d != new:
                bad('reader', 'torn-view-' + op[0], '%s of a single-file archive gives %r: neither the earlier dictionary %r nor the later one %r' % (op[0], d, old, new))
            for k in old:
                if k not in touched and d.get(k) != old[k]: bad('reader', 'absent', '%s misses or changes the untouched key %s' % (op[0], k)); break
                if k in touched and k not in removed and k not in d: bad('reader', 'absent', '%s misses key %s, which is stored throughout (being overwritten)' % (op[0], k)); break
    return viol[:1]


def work(a):
    tier, idx = a
    return run_schedule(gen(tier, idx))


def explore(prop, tier):
    with ThreadPool(NPROC) as p:
        trs = p.map(work, [(tier, i) for i in range(NSCHED[tier])])
    errors = [t['err'] for t in trs if t['err']]
    trs = [t for t in trs if not t['err']]
    import run_sched_model
    divs = run_sched_model.compare([t for t in trs if not t['case'].get('fine') and t['case']['cfg']['kind'] != 'sql' and t['case']['scen'] not in MONITOR_ONLY])
    viols = []
    tags = collections.Counter(); nontriv = 0
    for tr in trs:
        tags['scen:' + tr['case']['scen']] += 1; tags['policy:' + tr['case']['policy'].split(':')[0]] += 1
        if any(a[0] != b[0] for a, b in zip(tr['sched'], tr['sched'][1:])): nontriv += 1
        tags['steps'] += len(tr['sched'])
        if tr['case'].get('fine'): tags['syscall-level-reader-gates'] += 1
        for v in monitor(tr): viols.append(dict(v, case=tr['case'], schedule=[s[0] for s in tr['sched']]))
    import run_sched_sql
    sq = run_sched_sql.explore_sql(tier)
    tags.update(sq['tags']); viols += sq['violations']; errors += sq['errors']
    pv, pe = same_seed_probe(); viols += pv; errors += pe; tags['same-seed-probe'] += 1
    pv, pe = same_key_probe(); viols += pv; errors += pe; tags['same-key-probe'] += 1
    return dict(suite='sched', traces=len(trs) + sq['runs'], evaluations=sum(len(t['sched']) for t in trs) + sq['ops'], distinct_nontrivial=nontriv,
                tags=dict(tags), divergences=divs, violations=viols,
                samples=[dict(scen=t['case']['scen'], procs=repr(t['case']['procs']), schedule=''.join(str(s[0]) for s in t['sched'])) for t in trs[:3]],
                errors=errors, rule=RULE, required_tags=['scen:ww', 'scen:wr-list', 'scen:over-r', 'scen:del-list', 'scen:f-wo', 'scen:f-wr', 'sql:runs'],
                config_histogram=dict(collections.Counter(t['case']['scen'] for t in trs)))


def _ser_case(case):
    c = dict(case); c['prior'] = pickle.dumps(case['prior']).hex(); c['procs'] = pickle.dumps(case['procs']).hex()
    c['readable'] = dict(prior=repr(case['prior']), procs=repr(case['procs']))
    return c


def _deser_case(c):
    c = dict(c); c['prior'] = pickle.loads(bytes.fromhex(c['prior'])); c['procs'] = pickle.loads(bytes.fromhex(c['procs']))
    c['procs'] = [tuple(p) for p in c['procs']]
    return c


SAME_SEED_PROBE = r"""
import os, sys, random, shutil, tempfile
from klepto.archives import dir_archive
root = tempfile.mkdtemp(); path = os.path.join(root, 'shared')
dir_archive(path, cached=False)
a2b_r, a2b_w = os.pipe(); b2a_r, b2a_w = os.pipe()
class Slow(object):
    done = False
    def __reduce__(self):
        if not Slow.done:
            Slow.done = True
            os.write(a2b_w, b'x'); os.read(b2a_r, 1)
        return (str, ('value-of-a',))
MODE = sys.argv[1]
KB = 'b' if MODE == 'same-seed' else 'a'
def worker_a():
    if MODE == 'same-seed': random.seed(0)
    dir_archive(path, cached=False)['a'] = Slow()
def worker_b():
    if MODE == 'same-seed': random.seed(0)
    os.read(a2b_r, 1)
    try: dir_archive(path, cached=False)[KB] = 'value-of-b'
    finally: os.write(b2a_w, b'x')
pids = []
for work in (worker_a, worker_b):
    pid = os.fork()
    if not pid:
        try: work()
        finally: os._exit(0)
    pids.append(pid)
for pid in pids: os.waitpid(pid, 0)
fresh = dir_archive(path, cached=False)
got = dict((k, fresh.get(k, '<missing>')) for k in ('a', 'b'))
print(repr(got))
shutil.rmtree(root)
"""


def same_key_probe(prop='C14'):
    """two processes store the SAME key of one dir_archive, B's whole store inside A's (two caches evicting the same key into a shared
    archive): afterwards the key is there, readable, with one of the two values"""
    env = dict(os.environ, PYTHONPATH=REPO)
    p = subprocess.run([sys.executable, '-c', SAME_SEED_PROBE, 'same-key'], stdout=subprocess.PIPE, stderr=subprocess.PIPE, text=True, timeout=60, env=env, cwd='/tmp')
    out = p.stdout.strip().splitlines()[-1] if p.stdout.strip() else ''
    if p.returncode != 0 or not out:
        return [], ['same-key probe failed to run: ' + p.stderr[-300:]]
    if out not in (repr({'a': 'value-of-a', 'b': '<missing>'}), repr({'a': 'value-of-b', 'b': '<missing>'})):
        return [dict(prop=prop, i=0, sig=dict(kind='same-key-writers-lose-the-entry', backend='dir'), probe='same-key', cfg=dict(probe='same-key'), ops=[],
                     msg='two processes storing the SAME key of one dir_archive at overlapping times (two caches evicting one key into a shared archive): a fresh handle reads %s' % out)], []
    return [], []


def same_seed_probe():
    """C14, first clause (writers to different keys of a dir_archive both end up present and intact) for two processes whose GLOBAL random
    streams are in the same state (both called random.seed(0) - common in numerical code): B's whole store of key 'b' is placed inside A's
    store of key 'a' (a pipe handshake inside the pickling of A's value). Staging names must not depend on the caller's random stream alone."""
    env = dict(os.environ, PYTHONPATH=REPO)
    p = subprocess.run([sys.executable, '-c', SAME_SEED_PROBE, 'same-seed'], stdout=subprocess.PIPE, stderr=subprocess.PIPE, text=True, timeout=60, env=env, cwd='/tmp')
    out = p.stdout.strip().splitlines()[-1] if p.stdout.strip() else ''
    if p.returncode != 0 or not out:
        return [], ['same-seed probe failed to run: ' + p.stderr[-300:]]
    if out != repr({'a': 'value-of-a', 'b': 'value-of-b'}):
        return [dict(prop='C14', i=0, sig=dict(kind='same-seed-writers-collide', backend='dir'), probe='same-seed',
                     msg='two processes with the same random state (random.seed(0)) storing DIFFERENT keys of one dir_archive at overlapping times: a fresh handle reads %s' % out)], []
    return [], []


def replay(prop, obj):
    if obj.get('probe') == 'lingering':
        import run_sched_sql
        return run_sched_sql.replay(obj)
    if obj.get('probe') in ('same-seed', 'same-key'):
        v, e = same_seed_probe() if obj['probe'] == 'same-seed' else same_key_probe()
        if e: raise NoVerdict(e[0])
        return dict(violations=[dict(prop='C14', sig=x['sig'], msg=x['msg'], i=0) for x in v], divergence=None)
    if 'sqlcase' in obj:
        import run_sched_sql
        return run_sched_sql.replay(obj)
    case = _deser_case(obj['case']); case['schedule'] = obj.get('schedule')
    tr = run_schedule(case)
    if tr['err']: raise NoVerdict(tr['err'])
    import run_sched_model
    divs = run_sched_model.compare([tr]) if not tr['case'].get('fine') and tr['case']['cfg']['kind'] != 'sql' and tr['case']['scen'] not in MONITOR_ONLY else []
    return dict(violations=[dict(prop='C14', sig=v['sig'], msg=v['msg'], i=0) for v in monitor(tr)], divergence=divs[0]['detail'] if divs else None)


def shrink_and_save(prop, v):
    if v.get('probe'):
        return write_replay(prop, 'violation', dict(suite='sched', property=prop, probe=v['probe'], signature=v['sig'], message=v['msg']))
    if 'sqlcase' in v:
        return write_replay(prop, 'violation', dict(suite='sched', property=prop, sqlcase=v['sqlcase'], signature=v['sig'], message=v['msg']))
    return write_replay(prop, 'violation', dict(suite='sched', property=prop, case=_ser_case(v['case']), schedule=v['schedule'], signature=v['sig'], message=v['msg']))


def search(prop, tier, divergences, budget_s, known):
    import verdict
    t0 = time.time(); rnd = 0
    while time.time() - t0 < budget_s:
        with ThreadPool(NPROC) as p:
            trs = p.map(work, [('search%d' % rnd, i) for i in range(NPROC * 4)])
        rnd += 1
        for tr in trs:
            if tr['err']: continue
            for v in monitor(tr):
                if not verdict.match_known(prop, v['sig'], known):
                    return shrink_and_save(prop, dict(v, case=tr['case'], schedule=[s[0] for s in tr['sched']]))
    return None


if __name__ == '__main__':
    tier = sys.argv[1] if len(sys.argv) > 1 else 'quick'
    t0 = time.time()
    with ThreadPool(NPROC) as p:
        trs = p.map(work, [(tier, i) for i in range(NSCHED[tier])])
    print('errors', [t['err'] for t in trs if t['err']][:3])
    trs = [t for t in trs if not t['err']]
    viols = []
    for tr in trs: viols += monitor(tr)
    c = collections.Counter(json.dumps(v['sig'], sort_keys=True) for v in viols)
    for s, n in sorted(c.items()): print(n, s)
    seen = set()
    for v in viols:
        s = json.dumps(v['sig'], sort_keys=True)
        if s in seen: continue
        seen.add(s); print(v['msg'][:700]); print()
    print('schedules', len(trs), 'steps', sum(len(t['sched']) for t in trs), 'wall', time.time() - t0)
    print(trs[0]['sched'][:30], trs[0]['results'])
