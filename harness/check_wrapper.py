"""Comparison of implementation traces with the Lean model (suite `wrapper`), projections per
property, and the Python monitors that evaluate each property directly on the implementation."""
import json, collections
from common import *
import suite_wrapper as sw


def norm_model(o):
    """driver output -> same shape as the implementation observation"""
    return dict(out=o['out'], mem=sorted(o['mem']), arch=None if o['arch'] is None else sorted(o['arch']),
                swap=None if o['swap'] is None else sorted(o['swap']), stats=o['stats'])


def proj(prop, obs, is_call):
    """observation projection pi_P (DESIGN 3.3). obs = dict(out, mem, arch, swap, stats)"""
    out = obs['out']
    if prop == 'C01':
        if not is_call: return None
        if isinstance(out, dict) and 'ret' in out: return ('ret', out['ret'])
        if isinstance(out, dict) and 'exc' in out: return ('exc', out['exc'])
        return out
    if prop == 'C02':
        ev = out.get('evals') if isinstance(out, dict) else None
        return (ev, [p[0] for p in obs['mem']], None if obs['arch'] is None else [p[0] for p in obs['arch']])
    if prop == 'C05':
        return len(obs['mem'])
    if prop == 'C06':
        return [p[0] for p in obs['mem']]
    if prop == 'C07':
        return (obs['mem'], obs['arch'])
    if prop == 'C15':
        return (obs['stats'], out if isinstance(out, dict) and 'info' in out else None, len(obs['mem']))
    # C16, C18, C20 and the default: everything
    return (out, obs['mem'], obs['arch'], obs['swap'], obs['stats'])


def compare_trace(tr, model_outs, props):
    """returns {prop: first divergence or None}; model_outs excludes the cfg line's output"""
    res = {p: None for p in props}
    j = 0
    for rec in tr['recs']:
        if isinstance(rec['out'], dict) and 'crash' in rec['out']:
            break
        if rec['line'] is None:
            # op not shown to the model (key(), skipped ext ops): the state must not have changed
            a, b = rec['before'], rec['after']
            if (a['mem'], a['arch'], a['swap'], a['stats']) != (b['mem'], b['arch'], b['swap'], b['stats']) \
               or (isinstance(rec['out'], dict) and (rec['out'].get('evals') or rec['out'].get('keyeq') is False)):
                for p in props:
                    if res[p] is None and p in ('C18', 'C16', 'C20'):
                        res[p] = dict(i=rec['i'], op=rec['op'], impl=rec['after'], model='unchanged state', out=rec['out'])
            continue
        mo = model_outs[j]; j += 1
        if 'bad-op' in mo:
            raise NoVerdict('driver rejected %r: %r' % (rec['line'], mo))
        m = norm_model(mo)
        a = rec['after']
        impl = dict(out=rec['out'], mem=a['mem'], arch=a['arch'], swap=a['swap'], stats=a['stats'])
        is_call = rec['op'][0] in ('call', 'callbad')
        for p in props:
            if res[p] is None and proj(p, impl, is_call) != proj(p, m, is_call):
                res[p] = dict(i=rec['i'], op=rec['op'], line=rec['line'], impl=impl, model=m)
    return res


# ------------------------------------------------------------------ monitors
def monitor_trace(tr):
    """evaluate the properties directly on the implementation trace.
    returns list of dict(prop, i, sig, msg) ; plus branch tags"""
    cfg = tr['cfg']
    viol = []
    tags = collections.Counter()
    algo = cfg['algo']
    raising = set(cfg['raising'])
    hist_calls = 0
    evaluated_ok = set()        # keys evaluated successfully while a lossless archive stayed attached
    seen_ok = set()             # keys seen in memory or in the archive while a lossless archive was attached (since the last reset)
    for rec in tr['recs']:
        op, out, b, a = rec['op'], rec['out'], rec['before'], rec['after']
        kind = op[0]
        tags[kind] += 1
        if isinstance(out, dict) and 'crash' in out:
            viol.append(dict(prop='*', i=rec['i'], sig=dict(kind='operation-raised', op=kind),
                             msg='%r raised %s' % (op, out['crash'])))
            break
        if 'error' in a:
            viol.append(dict(prop='*', i=rec['i'], sig=dict(kind='state-unreadable', op=kind),
                             msg='after %r the cache/archive cannot be read back: %s' % (op, a['error'])))
            break
        if isinstance(out, dict) and out.get('altered'):
            viol.append(dict(prop='C16', i=rec['i'], sig=dict(kind='exception-altered', algo=algo, safe=cfg['safe']),
                             msg='%r: the exception raised by the function arrived altered (%s); it was raised `from` a root cause' % (op, out['altered'])))
        if isinstance(out, dict) and out.get('blocked'):
            for pr in ('C16', 'C01'):
                viol.append(dict(prop=pr, i=rec['i'], sig=dict(kind='call-blocks-after-a-raising-call', algo=algo, safe=cfg['safe']),
                                 msg='%r made from a second thread after an earlier call had raised never returned (3 s): the raising call left something held' % (op,)))
            break
        if isinstance(out, dict) and 'independence' in out:
            viol.append(dict(prop='C20', i=rec['i'], sig=dict(kind='not-independent', what=out['independence']['what']),
                             msg='using the restored copy changed the original (%s)' % out['independence']['what']))
        if kind in ('lookup', 'key', 'info', 'archivedq', 'dump', 'dumpAll', 'load', 'loadAll', 'on', 'off', 'setarch', 'extput', 'extdel') \
           and 'error' not in b and b.get('stats') != a.get('stats') and not (isinstance(out, dict) and 'crash' in out):
            viol.append(dict(prop='C15', i=rec['i'], sig=dict(kind='non-call-operation-changes-counters', op=kind, algo=algo),
                             msg='%r is not a call, yet (hit, miss, load) went from %r to %r' % (op, b.get('stats'), a.get('stats'))))
        if kind == 'twin':
            tags['twin-run'] += 1
            if not out['twin']['ok']:
                viol.append(dict(prop='C20', i=rec['i'], sig=dict(kind='copy-continues-differently', algo=algo),
                                 msg='%d further calls from one random state: the copy gives %s, the original %s' % (out['twin']['ncalls'], out['twin']['copy'], out['twin']['orig'])))
            continue
        if kind == 'clone':
            if out.get('clone') != 'ok' and cfg['backend'] in ('sql', 'bare_sql', 'sqlmem'):
                tags['clone-of-an-unpicklable-backend'] += 1           # (a database connection does not pickle: not a picklable backend)
            elif out.get('clone') != 'ok':
                viol.append(dict(prop='C20', i=rec['i'], sig=dict(kind='unpicklable', exc=out.get('exc')), msg='dill round-trip failed: %r' % (out,)))
            else:
                if 'error' not in b and (b['mem'], b['arch'], b['swap'], b['stats']) != (a['mem'], a['arch'], a['swap'], a['stats']):
                    what = [n_ for n_ in ('mem', 'arch', 'swap', 'stats') if b[n_] != a[n_]]
                    viol.append(dict(prop='C20', i=rec['i'], sig=dict(kind='round-trip-changed-the-original', what=what[0]),
                                     msg='pickling and restoring a copy changed the original: %s went from %.200r to %.200r' % (what[0], b[what[0]], a[what[0]])))
                for fld, what in (('same_state', 'cache contents / statistics / archive'), ('same_cfg', 'configuration'), ('wrapped', '__wrapped__')):
                    if not out[fld]:
                        viol.append(dict(prop='C20', i=rec['i'], sig=dict(kind='copy-differs', field=fld),
                                         msg='restored copy differs in %s: original %r copy %r' % (what, out.get('orig'), out.get('copy'))))
            continue
        if b.get('arch') is not None and 'error' not in b:
            seen_ok |= set(k_ for k_, _ in b['mem']) | set(k_ for k_, _ in b['arch'])
        if kind in ('clear', 'off', 'on', 'setarch', 'extdel') or b['arch'] is None:
            evaluated_ok = set()    # the property allows re-evaluation after these
            # ... but what is RESIDENT when a lossless archive replaces another one is still a stored result: from here on it has to
            # reach the new archive before it leaves memory
            seen_ok = set(k_ for k_, _ in a['mem']) if (kind == 'setarch' and a.get('arch') is not None and 'error' not in a) else set()
        if kind not in ('call', 'callbad'):
            if kind in ('lookup', 'key', 'info', 'archivedq'):
                if (b['mem'], b['arch'], b['swap'], b['stats']) != (a['mem'], a['arch'], a['swap'], a['stats']) or (isinstance(out, dict) and out.get('evals')):
                    viol.append(dict(prop='C18', i=rec['i'], sig=dict(kind='introspection-changed-state', op=kind), msg='%s changed state or evaluated' % kind))
                if kind == 'lookup':
                    key = rec['line']['key']
                    if 'ok' in key:
                        bm = dict(map(tuple, b['mem']))
                        exp = {'ret': bm[key['ok']], 'evals': 0} if key['ok'] in bm else {'exc': 'KeyError', 'evals': 0}
                        if out != exp:
                            viol.append(dict(prop='C18', i=rec['i'], sig=dict(kind='lookup-wrong'), msg='lookup returned %r expected %r' % (out, exp)))
            if kind == 'clear':
                tags['clear'] += 0
                exp_stats = b['stats'] if op[1] else [0, 0, 0]
                if a['stats'] != exp_stats or a['mem']:
                    viol.append(dict(prop='C15', i=rec['i'], sig=dict(kind='clear-wrong', algo=algo), msg='clear(%r): stats %r mem %r' % (op[1], a['stats'], a['mem'])))
            if kind == 'info':
                i = out['info']
                expms = 0 if algo == 'no' else (None if algo == 'inf' else cfg['maxsize'])
                if i[:3] != b['stats'] or i[4] != len(b['mem']) or i[3] != expms:
                    viol.append(dict(prop='C15', i=rec['i'], sig=dict(kind='info-wrong', algo=algo), msg='info %r vs stats %r size %d' % (i, b['stats'], len(b['mem']))))
            continue
        # ---- a call
        x = op[1]
        line = rec['line']
        key = line['key']
        fn = line['fn']
        bm = dict(map(tuple, b['mem'])); am = dict(map(tuple, a['mem']))
        ba = None if b['arch'] is None else dict(map(tuple, b['arch']))
        aa = None if a['arch'] is None else dict(map(tuple, a['arch']))
        archived = ba is not None
        completed = isinstance(out, dict) and 'ret' in out
        raised = isinstance(out, dict) and 'exc' in out
        evals = out.get('evals', 0)
        # expected outcome of the undecorated function
        exp = ('ret', fn['ok']) if 'ok' in fn else ('exc', fn['err'])
        got = ('ret', out['ret']) if completed else ('exc', out['exc'])
        keyok = 'ok' in key
        pre = dict(algo=algo, safe=cfg['safe'])
        # ---------------- C01
        if keyok and got != exp:
            viol.append(dict(prop='C01', i=rec['i'], sig=dict(kind='wrong-result', algo=algo, exc=got[1] if got[0] == 'exc' else None),
                             msg='call x=%r returned %r, function gives %r' % (x, got, exp)))
        # ---------------- C16: a call whose evaluation raises gives the caller THAT exception
        if keyok and 'err' in fn and got != exp:
            bm_ = dict(map(tuple, b['mem'])); ba_ = None if b['arch'] is None else dict(map(tuple, b['arch']))
            if key['ok'] not in bm_ and not (ba_ is not None and key['ok'] in ba_):
                viol.append(dict(prop='C16', i=rec['i'], sig=dict(kind='not-the-functions-exception', algo=algo, safe=cfg['safe'], got=got[1] if got[0] == 'exc' else 'a value'),
                                 msg='call x=%r: the function raises %r, the caller got %r' % (x, exp[1], got)))
        # ---------------- C16 (safe degrade)
        if not keyok:
            tags['keyfail'] += 1
            if cfg['safe'] and got != exp:
                viol.append(dict(prop='C16', i=rec['i'], sig=dict(kind='safe-keyfail', algo=algo, archived=archived, key=list(key)[0], exc=got[1]),
                                 msg='safe cache failed on un-keyable arguments: %r' % (got,)))
            if cfg['safe'] and evals != 1 and got == exp:
                viol.append(dict(prop='C16', i=rec['i'], sig=dict(kind='safe-keyfail-evals', algo=algo), msg='evaluations %d' % evals))
        # ---------------- C02 / C15 classification
        if keyok:
            k = key['ok']
            in_mem = k in bm
            in_arch = archived and k in ba
            if algo == 'no':
                cls = 'load' if (in_mem or in_arch) else 'miss'
            else:
                cls = 'hit' if in_mem else ('load' if in_arch else 'miss')
            tags[cls] += 1
            if evals and completed and archived and algo != 'no' and k in seen_ok and k not in evaluated_ok and not cfg.get('refuse'):
                viol.append(dict(prop='C02', i=rec['i'], sig=dict(kind='reevaluated-although-stored-earlier', algo=algo, purge=cfg['purge']),
                                 msg='x=%r evaluated although its result had been in memory or in the archive earlier, a lossless archive stayed attached since and nothing was cleared' % (x,)))
            if evals and completed and archived:
                if k in evaluated_ok:
                    viol.append(dict(prop='C02', i=rec['i'], sig=dict(kind='reevaluated-with-archive', algo=algo, purge=cfg['purge']),
                                     msg='x=%r evaluated again although a lossless archive stayed attached and nothing was cleared' % (x,)))
                evaluated_ok.add(k)
            exp_eval = 1 if cls == 'miss' else 0
            if evals != exp_eval:
                viol.append(dict(prop='C02', i=rec['i'], sig=dict(kind='eval-count', algo=algo, cls=cls, evals=evals),
                                 msg='x=%r classified %s but evaluated %d times' % (x, cls, evals)))
            d = [a['stats'][j] - b['stats'][j] for j in range(3)]
            if completed:
                expd = {'hit': [1, 0, 0], 'miss': [0, 1, 0], 'load': [0, 0, 1]}[cls]
            else:
                expd = [0, 0, 0]
            if d != expd:
                viol.append(dict(prop='C15', i=rec['i'], sig=dict(kind='counter', algo=algo, cls=cls, completed=completed, exc=None if completed else out['exc']),
                                 msg='x=%r %s completed=%s: counters moved by %r' % (x, cls, completed, d)))
        else:
            d = [a['stats'][j] - b['stats'][j] for j in range(3)]
            expd = [0, 1, 0] if completed else [0, 0, 0]
            if d != expd:
                viol.append(dict(prop='C15', i=rec['i'], sig=dict(kind='counter-keyfail', algo=algo, safe=cfg['safe']), msg='counters moved by %r' % d))
        if a['size'] != len(a['mem']):
            viol.append(dict(prop='C15', i=rec['i'], sig=dict(kind='size'), msg='info.size %r != %d' % (a['size'], len(a['mem']))))
        # ---------------- C16 (raise is a no-op)
        if not keyok and not cfg['safe'] and 'gen' in key:
            # a standard wrapper computes the key outside any handler: the key pipeline's exception propagates, nothing is evaluated or changed
            tags['keyfail-std'] += 1
            if not raised or evals != 0 or (b['mem'], b['arch'], b['swap'], b['stats']) != (a['mem'], a['arch'], a['swap'], a['stats']):
                viol.append(dict(prop='C16', i=rec['i'], sig=dict(kind='std-keyfail', algo=algo, evals=evals, raised=bool(raised)),
                                 msg='standard %s: the key could not be generated, yet raised=%r evaluations=%d (expected the key error, 0 evaluations, no state change)' % (algo, bool(raised), evals)))
        elif 'err' in fn and raised and out['exc'] == fn['err'] and (not keyok or (key['ok'] not in bm and not (archived and key['ok'] in ba))):
            tags['raise'] += 1
            if (b['mem'], b['arch'], b['swap'], b['stats']) != (a['mem'], a['arch'], a['swap'], a['stats']):
                viol.append(dict(prop='C16', i=rec['i'], sig=dict(kind='raise-changed-state', algo=algo), msg='state changed by a raising call'))
            if evals != 1:
                viol.append(dict(prop='C16', i=rec['i'], sig=dict(kind='raise-evals', algo=algo, evals=evals), msg='raising call evaluated %d times' % evals))
        # ---------------- C05
        bound = max(cfg['maxsize'], len(bm)) if algo not in ('no', 'inf') else None
        if algo == 'no' and am and not cfg['backend'].startswith('bare') and (completed or True) and keyok and completed:
            viol.append(dict(prop='C05', i=rec['i'], sig=dict(kind='no-cache-resident'), msg='no_cache keeps %d entries' % len(am)))
        if bound is not None and len(am) > bound:
            viol.append(dict(prop='C05', i=rec['i'], sig=dict(kind='over-bound', algo=algo, purge=cfg['purge'], exc=None if completed else out['exc']),
                             msg='size %d > max(maxsize=%d, before=%d)' % (len(am), cfg['maxsize'], len(bm))))
        if algo == 'inf' and not set(bm) <= set(am):
            viol.append(dict(prop='C05', i=rec['i'], sig=dict(kind='inf-evicted'), msg='inf_cache lost entries'))
        overflowed = algo not in ('no', 'inf') and keyok and key['ok'] not in bm and completed and len(bm) + 1 > cfg['maxsize']
        if overflowed: tags['overflow'] += 1
        if overflowed and archived and cfg['purge']:
            tags['purge'] += 1
            if am:
                viol.append(dict(prop='C05', i=rec['i'], sig=dict(kind='purge-not-empty', algo=algo), msg='purge left %d entries' % len(am)))
        # ---------------- C07
        left = [k for k in bm if k not in am]
        if keyok and key['ok'] in am and key['ok'] not in bm: pass
        if left: tags['evict'] += 1
        if archived and left and aa is not None:
            for k in left:
                if k not in aa or aa[k] != bm[k]:
                    viol.append(dict(prop='C07', i=rec['i'], sig=dict(kind='lost-on-eviction', algo=algo, purge=cfg['purge']),
                                     msg='key %r left memory but archive has %r' % (k, aa.get(k, '<absent>'))))
        if archived and aa is not None:
            for k, v in ba.items():
                if k not in aa or aa[k] != v:
                    viol.append(dict(prop='C07', i=rec['i'], sig=dict(kind='archive-entry-changed', algo=algo),
                                     msg='archived entry %r changed %r -> %r' % (k, v, aa.get(k, '<absent>'))))
        # a freshly computed result must be retrievable right after the call
        if keyok and completed and evals == 1 and archived and algo != 'inf':
            k = key['ok']
            if k not in am and (aa is None or k not in aa):
                viol.append(dict(prop='C07', i=rec['i'], sig=dict(kind='computed-not-retained', algo=algo), msg='result for key %r is nowhere' % k))
        # ---------------- C06 (frame part; the policy part is in monitor_policy)
        if keyok and key['ok'] in bm and left and algo != 'no':
            viol.append(dict(prop='C06', i=rec['i'], sig=dict(kind='hit-evicted', algo=algo), msg='a hit removed %r' % left))
        if not overflowed and left and algo not in ('no',) and not (keyok and algo != 'inf' and len(bm) + 1 > cfg['maxsize']):
            viol.append(dict(prop='C06', i=rec['i'], sig=dict(kind='evicted-without-overflow', algo=algo), msg='entries %r left without overflow' % left))
    viol += policy_violations(tr)
    return viol, tags


# ------------------------------------------------------------------ twin runs (hyper-properties)
def twin_violations(prop, tr):
    """C16 / C18 say "exactly as if the call had not been made".  Re-run the history without the
    raising / un-keyable calls (C16) or without the introspection ops (C18) and compare every
    remaining operation's outcome and the state after it."""
    import suite_wrapper as sw
    cfg = tr['cfg']
    drop = set()
    for rec in tr['recs']:
        op, out = rec['op'], rec['out']
        if prop == 'C16' and op[0] in ('call', 'callbad'):
            key, fn = rec['line']['key'], rec['line']['fn']
            b = rec['before']
            retrievable = 'ok' in key and (key['ok'] in dict(map(tuple, b['mem'])) or (b['arch'] is not None and key['ok'] in dict(map(tuple, b['arch']))))
            if 'ok' in key and 'err' in fn and not retrievable:
                drop.add(rec['i'])
            if 'ok' not in key and cfg['safe'] and cfg['algo'] != 'no':
                drop.add(rec['i'])   # (safe.no_cache runs its usual purge after the direct evaluation)
        if prop == 'C18' and op[0] in ('lookup', 'key', 'info', 'archivedq'):
            drop.add(rec['i'])
    if not drop:
        return [], 0
    ops2 = [op for i, op in enumerate(tr['ops']) if i not in drop]
    tw = sw.run_trace(cfg, ops2)
    if tw['err']:
        return [dict(prop=prop, i=0, sig=dict(kind='twin-crashed'), msg=tw['err'][-300:])], len(drop)
    viol = []
    j = 0
    miss_off = 0
    def dec(t, pairs):
        return None if pairs is None else sorted((t['keys'][k], t['vals'][v]) for k, v in pairs)
    def deco(t, out):
        if isinstance(out, dict) and 'ret' in out:
            return dict(out, ret=t['vals'][out['ret']])
        return out
    for rec in tr['recs']:
        if rec['i'] in drop:
            if prop == 'C16' and isinstance(rec['out'], dict) and 'ret' in rec['out']:
                miss_off += 1          # a completed safe fall-back counts one miss
            continue
        t = tw['recs'][j]; j += 1
        if rec['op'][0] == 'clear' and not rec['op'][1]:
            miss_off = 0
        a, b = rec['after'], t['after']
        sa = list(a['stats']); sa[1] -= miss_off
        am, bm = dec(tr, a['mem']), dec(tw, b['mem'])
        aa, ba = dec(tr, a['arch']), dec(tw, b['arch'])
        o1, o2 = deco(tr, rec['out']), deco(tw, t['out'])
        same = (o1 == o2 or rec['op'][0] in ('info',)) and am == bm and aa == ba and dec(tr, a['swap']) == dec(tw, b['swap']) and sa == b['stats']
        if not same:
            what = 'out' if o1 != o2 else ('mem' if am != bm else ('arch' if aa != ba else 'stats'))
            viol.append(dict(prop=prop, i=rec['i'], sig=dict(kind='not-as-if-never-made', algo=cfg['algo'], safe=cfg['safe'], differs=what),
                             msg='history with and without the %s differs at op %d %r (%s): %r vs %r' % (
                                 'raising/un-keyable calls' if prop == 'C16' else 'introspection calls', rec['i'], rec['op'], what,
                                 (o1, am, a['stats']), (o2, bm, b['stats']))))
            break
    return viol, len(drop)


# ------------------------------------------------------------------ C06: independent policy spec
def policy_violations(tr):
    """history-level specification of the four policies, written from the property text (not from
    the code's bookkeeping): per-key last-use time and use count since the key entered the cache
    through a call.  Entries that entered by bulk load / pre-population are untracked and are never
    chosen (documented behaviour)."""
    cfg = tr['cfg']
    algo = cfg['algo']
    if algo in ('no', 'inf'):
        return []
    viol = []
    last = {}      # key -> time of last use (tracked keys only)
    count = {}     # key -> uses since it entered
    t = 0
    for rec in tr['recs']:
        op, out, b, a = rec['op'], rec['out'], rec['before'], rec['after']
        kind = op[0]
        bm = dict(map(tuple, b['mem'])); am = dict(map(tuple, a['mem']))
        if kind == 'clear':
            last.clear(); count.clear(); continue
        if kind not in ('call', 'callbad'):
            continue
        key = rec['line']['key']
        if 'ok' not in key:
            continue
        k = key['ok']
        t += 1
        completed = isinstance(out, dict) and 'ret' in out
        raised_user = isinstance(out, dict) and 'exc' in out and out['exc'] != 'IndexError'
        left = sorted(x for x in bm if x not in am)
        archived = b['arch'] is not None
        was_resident = k in bm
        if raised_user and not was_resident and not (archived and k in dict(map(tuple, b['arch']))):
            if left:
                viol.append(dict(prop='C06', i=rec['i'], sig=dict(kind='raise-evicted', algo=algo), msg='a raising call removed %r' % left))
            continue
        overflow = (not was_resident) and len(bm) + 1 > cfg['maxsize']
        if was_resident or not overflow:
            if left:
                viol.append(dict(prop='C06', i=rec['i'], sig=dict(kind='evicted-without-overflow', algo=algo), msg='entries %r left without overflow' % left))
            last[k] = t; count[k] = count.get(k, 0) + 1
            continue
        # overflow after inserting k
        resident_after_insert = set(bm) | {k}
        if archived and cfg['purge']:
            if am:
                viol.append(dict(prop='C06', i=rec['i'], sig=dict(kind='purge-incomplete', algo=algo), msg='purge left %r' % sorted(am)))
            last.clear(); count.clear()
            continue
        gone = sorted(x for x in resident_after_insert if x not in am)
        # the current call is a use of k (lru/lfu record it before evicting; mru after)
        if algo != 'mru':
            last[k] = t; count[k] = count.get(k, 0) + 1
        tracked = [x for x in last if x in resident_after_insert]
        exp = None
        if algo == 'lru':
            exp = [min(tracked, key=lambda x: last[x])] if tracked else []
            ok = gone == exp
        elif algo == 'mru':
            exp = [max(tracked, key=lambda x: last[x])] if tracked else []
            ok = gone == exp
        elif algo == 'lfu':
            n = min(max(2, cfg['maxsize'] // 10), len(tracked))
            kept = [x for x in tracked if x not in gone]
            ok = len(gone) == n and all(x in tracked for x in gone) and all(count[g] <= count[r] for g in gone for r in kept)
            exp = 'the %d least-used of %r' % (n, {x: count[x] for x in tracked})
        elif algo == 'rr':
            ok = len(gone) == 1
            exp = 'exactly one resident entry'
        if not ok:
            viol.append(dict(prop='C06', i=rec['i'],
                             sig=dict(kind='policy', algo=algo, purge=cfg['purge'], exc=None if completed else out.get('exc'), none_evicted=not gone),
                             msg='%s overflow removed %r, policy selects %r (last use %r)' % (algo, gone, exp, {x: last[x] for x in tracked})))
        for g in gone:
            last.pop(g, None); count.pop(g, None)
        if algo == 'mru' and k in am and completed:
            last[k] = t; count[k] = count.get(k, 0) + 1
    return viol
