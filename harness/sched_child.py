"""child process of suite `sched` (C14): performs ONE archive operation; before every gated call it reports to the
scheduler and blocks until released, so that the scheduler decides the interleaving of several such processes.

Gated calls
  writers : every mutating file-system call (as in fs_child.py: mkdir creat write close unlink rmdir rename)
  readers : dir_archive's own read helpers `_lsdir`, `_hasinput`, `_lookup` and the existence test of `__contains__`
            (each executes atomically between two gates); file_archive: the open-for-reading of `__asdict__`
With `fine = true` the readers are gated at system-call level instead (os.scandir / os.stat / os.lstat / open for reading)."""
import sys, os, json, pickle, traceback, builtins, io
import fs_child as FC

CTL_W = None; CTL_R = None


def report(msg):
    os.write(CTL_W, (json.dumps(msg) + '\n').encode())


def wait_go():
    b = os.read(CTL_R, 1)
    if not b: os._exit(3)


def sched_gate(kind, path, data=None, extra=None):
    rel = FC._rel(path) if path is not None else '.'
    if rel is None: return
    msg = [kind, rel] + ([FC._rel(extra)] if extra is not None else [])
    FC.LOG.append(msg)
    report(dict(g=msg))
    wait_go()


def install_reader_gates(cfg, fine):
    import klepto._archives as k_
    if fine:
        real_scandir, real_stat, real_lstat, real_open = os.scandir, os.stat, os.lstat, builtins.open
        def g_scandir(path='.'):
            sched_gate('scandir', os.fspath(path)); return real_scandir(path)
        def g_stat(path, *a, **kw):
            if isinstance(path, (str, bytes, os.PathLike)): sched_gate('stat', os.fspath(path))
            return real_stat(path, *a, **kw)
        def g_lstat(path, *a, **kw):
            if isinstance(path, (str, bytes, os.PathLike)): sched_gate('lstat', os.fspath(path))
            return real_lstat(path, *a, **kw)
        prev_open = builtins.open
        def g_open(file, mode='r', *a, **kw):
            if isinstance(file, (str, bytes, os.PathLike)) and not any(c in mode for c in 'wax') and FC._rel(os.fspath(file)) is not None:
                sched_gate('read', os.fspath(file))
            return prev_open(file, mode, *a, **kw)
        os.scandir = g_scandir; os.stat = g_stat; os.lstat = g_lstat; builtins.open = g_open; io.open = g_open
        return
    if cfg['kind'] == 'dir':
        D = k_.dir_archive
        o_ls, o_has, o_look, o_cont = D._lsdir, D._hasinput, D._lookup, D.__contains__
        def g_ls(self): sched_gate('lsdir', self.__state__['id']); return o_ls(self)
        def g_has(self, root): sched_gate('hasinput', root); return o_has(self, root)
        def g_look(self, key, input=False): sched_gate('lookin' if input else 'lookout', self._getdir(key)); return o_look(self, key, input)
        def g_cont(self, key): sched_gate('exists', self._getdir(key)); return o_cont(self, key)
        D._lsdir, D._hasinput, D._lookup, D.__contains__ = g_ls, g_has, g_look, g_cont
    elif cfg['kind'] == 'file':
        prev_open = builtins.open
        def g_open(file, mode='r', *a, **kw):
            if isinstance(file, (str, bytes, os.PathLike)) and not any(c in mode for c in 'wax') and FC._rel(os.fspath(file)) is not None \
               and not os.fspath(file).endswith('.json.log.json'):
                sched_gate('read', os.fspath(file))
            return prev_open(file, mode, *a, **kw)
        builtins.open = g_open; io.open = g_open


class CursorProxy:
    """sqlite: every statement is a scheduling point (statement + its commit run as one step: the lock is never held across a gate)"""
    def __init__(self, cur, path): self._cur = cur; self._path = path
    def execute(self, sql, *a):
        sched_gate('sql:' + sql.split()[0].lower(), self._path)
        return self._cur.execute(sql, *a)
    def executescript(self, script):
        # a script runs statement by statement, each one committing by itself (that is what sqlite3's executescript does): every statement is a
        # scheduling point of its own
        for stmt in [x.strip() for x in script.split(';') if x.strip()]:
            sched_gate('sql:' + stmt.split()[0].lower(), self._path)
            self._cur.executescript(stmt + ';')
        return self._cur
    def __getattr__(self, n): return getattr(self._cur, n)


def gate_sql(a, root):
    a._engine = CursorProxy(a._engine, os.path.join(root, 'arch.db'))


def main():
    global CTL_W, CTL_R
    job = json.load(open(sys.argv[1]))
    CTL_W, CTL_R = job['ctl_w'], job['ctl_r']
    FC.JOBFILE = sys.argv[1]
    FC.ROOT = job['root']
    cfg, loc = job['cfg'], job['loc']
    from pcanon import canon_items, kcanon, canonv
    out = {}
    try:
        op = pickle.loads(bytes.fromhex(job['op']))
        import klepto._archives   # import everything before gating
        if job['role'] == 'writer':
            FC.gate = sched_gate               # mutating calls report to the scheduler instead of counting
            report(dict(ready=True)); wait_go()
            # (the handle is made AFTER the start gate: opening an archive is part of what the process does, and may fall into the middle
            #  of another process's write)
            a = FC.raw_archive(cfg, loc) if op[0] not in ('open',) else None
            if cfg['kind'] == 'sql': gate_sql(a, job['root'])
            if op[0] == 'open' or cfg['kind'] == 'file': FC.install_now(); install_reader_gates(cfg, job.get('fine', False))
            try:
                FC.do_op(cfg, loc, op, a)
                out['res'] = 'ok'
            except Exception as e:
                out['res'] = 'EXC:%s:%s' % (type(e).__name__, str(e)[:100])
        else:
            report(dict(ready=True)); wait_go()
            a = FC.raw_archive(cfg, loc)
            if cfg['kind'] == 'sql': gate_sql(a, job['root'])
            install_reader_gates(cfg, job.get('fine', False))
            cv = lambda v: json.dumps(canonv(v), sort_keys=True)
            try:
                k = op[0]
                if k == 'getitem': out['res'] = dict(val=cv(a[op[1]]))
                elif k == 'get': out['res'] = dict(val=cv(a.get(op[1], '<<DEFAULT>>')))
                elif k == 'contains': out['res'] = dict(bool=bool(op[1] in a))
                elif k == 'contains-hold':
                    # a long-lived reader: it has answered, keeps its handle open and does nothing for a while
                    out['res'] = dict(bool=bool(op[1] in a)); sched_gate('idle', job['root'])
                elif k == 'len': out['res'] = dict(nat=len(a))
                elif k == 'keys': out['res'] = dict(keys=sorted(kcanon(x) for x in a.keys()))
                elif k == 'asdict': out['res'] = dict(items=canon_items(a.__asdict__()))
                elif k == 'items': out['res'] = dict(items=canon_items(dict(a.items())))
                elif k == 'load':
                    from klepto.archives import cache as kcache
                    c = kcache(archive=a); c.load(); out['res'] = dict(items=canon_items(dict(c)))
                else: raise ValueError(k)
            except Exception as e:
                out['res'] = 'EXC:%s:%s' % (type(e).__name__, str(e)[:100])
    except Exception:
        out['error'] = traceback.format_exc()[-1500:]
    report(dict(done=out))


def group_main():
    """one parent that has imported klepto forks its workers (what multiprocessing's fork start method does): the workers inherit the
    parent's interpreter state - module globals, private random generators - and each then runs its own job"""
    import klepto, klepto._archives, klepto.archives        # imported (and whatever it seeds, seeded) BEFORE the fork
    jobs = json.load(open(sys.argv[2]))
    pids = []
    for jp in jobs:
        pid = os.fork()
        if pid == 0:
            sys.argv = [sys.argv[0], jp]
            try: main()
            finally: os._exit(0)
        pids.append(pid)
    for pid in pids:
        try: os.waitpid(pid, 0)
        except OSError: pass


if __name__ == '__main__':
    if len(sys.argv) > 2 and sys.argv[1] == '--group': group_main()
    else: main()
