"""suite `cache`: a bare `klepto.archives.cache` over every backend against model M2 (C08)"""
import os, json, time, collections, random
from multiprocessing import Pool
from common import *

BACKENDS = ['dict', 'dict', 'dict', 'file', 'dir', 'sql', 'null']
NTRACES = {'quick': 400, 'thorough': 6000}
RULE = ('seeded interleavings of dict mutations on the cache, direct mutations of the archive, load/dump (with and without keys), '
        'sync(clear), archived(True/False), open, drop, archive=...; over dict/file/dir/sqlite/null archives; '
        'non-trivial = trace exercised a toggle, sync, keyed load/dump or archive replacement')
OPS = ['put', 'put', 'del', 'pop', 'loadAll', 'load', 'dumpAll', 'dump', 'sync', 'syncc', 'on', 'off', 'drop', 'open', 'setarch', 'setnull',
       'aput', 'aput', 'adel', 'clearMem']


def new_archive(kind, tmp, n):
    import klepto.archives as ka
    if kind == 'dict': return ka.dict_archive('a%d' % n, cached=False)
    if kind == 'null': return ka.null_archive('n%d' % n, cached=False)
    if kind == 'file': return ka.file_archive(os.path.join(tmp, 'f%d.pkl' % n), cached=False)
    if kind == 'dir': return ka.dir_archive(os.path.join(tmp, 'd%d' % n), cached=False)
    if kind == 'sql': return ka.sqltable_archive('sqlite:///%s' % os.path.join(tmp, 's%d.db' % n), cached=False)
    raise ValueError(kind)


def gen(tier, idx):
    r = rng('cache', tier, idx)
    kind = BACKENDS[idx % len(BACKENDS)]
    n = r.choice([15, 30, 60]) if kind in ('dict', 'null') else r.choice([10, 25])
    ops = []
    for _ in range(n):
        op = r.choice(OPS)
        k = r.randrange(5); v = r.choice([0, 1, 2, 3, r.randrange(50), r.randrange(50)])
        if op in ('load', 'dump'):
            ops.append([op, [r.randrange(6) for _ in range(r.choice([1, 2, 3]))]])
        elif op in ('open', 'setarch'):
            ops.append([op, [[r.randrange(5), r.choice([0, 1, 2, r.randrange(50)])] for _ in range(r.choice([0, 2]))]])
        else:
            ops.append([op, k, v])
    if idx % 3 == 0:
        # stratum: a value replaced by one that is == to it but of another type (0 -> 0.0), dumped both times: the archive holds what was dumped last
        k0 = r.randrange(5); at = r.randrange(len(ops) + 1)
        ops[at:at] = [['put', k0, 1], ['dumpAll', 0, 0], ['put', k0, 3], [['dumpAll', 0, 0], ['dump', [k0]]][(idx // 3) % 2]]
    pre_mem = [[r.randrange(5), r.choice([0, 1, r.randrange(50)])] for _ in range(r.choice([0, 2]))]
    pre_arch = [[r.randrange(5), r.choice([0, 2, r.randrange(50)])] for _ in range(r.choice([0, 3]))]
    return dict(kind=kind, pre_mem=pre_mem, pre_arch=pre_arch), ops


def K(k): return 'k%d' % k          # keys every backend can store


def PV(v):
    """value number -> Python value: None and falsy values are legitimate contents too"""
    return {0: None, 1: 0, 2: '', 3: 0.0}.get(v, v)


def VN(x):
    """Python value -> value number (what the model holds)"""
    if x is None: return 0
    if x == '' and isinstance(x, str): return 2
    if isinstance(x, float) and x == 0.0: return 3
    if x == 0: return 1
    return x


def run_trace(cfg, ops):
    from klepto.archives import cache as kcache
    from klepto._archives import null_archive
    tmp = scratch_dir('kc')
    cwd = os.getcwd()
    try:
        os.chdir(tmp)
        narch = [0]
        urls = {}
        def mk(contents=None, kind=None):
            narch[0] += 1
            a = new_archive(kind or cfg['kind'], tmp, narch[0])
            if (kind or cfg['kind']) == 'sql': urls[id(a)] = 'sqlite:///%s' % os.path.join(tmp, 's%d.db' % narch[0])
            for k, v in (contents or []): a[K(k)] = PV(v)
            return a
        a0 = mk(cfg['pre_arch'])
        c = kcache(archive=a0)
        for k, v in cfg['pre_mem']: c[K(k)] = PV(v)
        def pairs(d):
            if isinstance(d, null_archive): return None
            if id(d) in urls:
                # a database table is read through a FRESH handle (another connection): what the cache wrote must be in the store, not pending
                # in the writing handle's transaction
                import klepto.archives as ka
                h = ka.sqltable_archive(urls[id(d)], cached=False)
                try: items = list(h.items())
                finally:
                    try: h._conn.close()
                    except Exception: pass
                return sorted([int(k[1:]), VN(v)] for k, v in items)
            items = d.__asdict__().items() if hasattr(d, '__asdict__') else d.items()
            return sorted([int(k[1:]), VN(v)] for k, v in items)
        def lastwins(l):
            d = {}
            for k, v in l: d[k] = v
            return sorted([k, v] for k, v in d.items())
        lines = [dict(suite='cache', op='cfg', mem=lastwins(cfg['pre_mem']),
                      arch=None if cfg['kind'] == 'null' else lastwins(cfg['pre_arch']), bare=False)]
        recs = []
        tags = collections.Counter()
        for i, op in enumerate(ops):
            kind = op[0]
            line = None
            exc = None
            try:
                if kind == 'put': line = dict(op='put', k=op[1], v=op[2]); c[K(op[1])] = PV(op[2])
                elif kind == 'del': line = dict(op='del', k=op[1]); del c[K(op[1])]
                elif kind == 'pop': line = dict(op='pop', k=op[1]); c.pop(K(op[1]))
                elif kind == 'clearMem': line = dict(op='clearMem'); c.clear()
                elif kind == 'loadAll': line = dict(op='loadAll'); c.load()
                elif kind == 'load': line = dict(op='load', ks=op[1]); c.load(*[K(k) for k in op[1]])
                elif kind == 'dumpAll': line = dict(op='dumpAll'); c.dump()
                elif kind == 'dump': line = dict(op='dump', ks=op[1]); c.dump(*[K(k) for k in op[1]])
                elif kind == 'sync': line = dict(op='sync', clear=False); c.sync()
                elif kind == 'syncc': line = dict(op='sync', clear=True); c.sync(clear=True)
                elif kind == 'on': line = dict(op='on'); c.archived(True)
                elif kind == 'off': line = dict(op='off'); c.archived(False)
                elif kind == 'drop': line = dict(op='drop'); c.drop()
                elif kind == 'open':
                    a = mk(op[1]); line = dict(op='open', a=lastwins(op[1]) if cfg['kind'] != 'null' else None); c.open(a)
                elif kind == 'setarch':
                    a = mk(op[1]); line = dict(op='setarch', a=lastwins(op[1]) if cfg['kind'] != 'null' else None); c.archive = a
                elif kind == 'setnull':
                    line = dict(op='setarch', a=None); c.archive = null_archive()
                elif kind in ('aput', 'adel'):
                    if isinstance(c.archive, null_archive):
                        recs.append(dict(i=i, op=op, line=None)); continue
                    if kind == 'aput': line = dict(op='aput', k=op[1], v=op[2]); c.archive[K(op[1])] = PV(op[2])
                    else:
                        line = dict(op='adel', k=op[1])
                        if cfg['kind'] == 'dir' and K(op[1]) not in c.archive:
                            raise KeyError(op[1])      # F3: dir_archive.__delitem__ never raises (C03's business)
                        del c.archive[K(op[1])]
            except Exception as e:
                exc = exc_name(e)
            tags[kind] += 1
            obs = dict(exc=exc, mem=pairs(c), arch=pairs(c.archive), swap=pairs(c.__swap__), archived=bool(c.archived()))
            is_new = (c.archive is a) if (kind in ('open', 'setarch') and exc is None) else None      # the archive handed over IS the one attached now
            recs.append(dict(i=i, op=op, line=line, obs=obs, is_new=is_new))
            lines.append(line)
        return dict(cfg=cfg, ops=ops, lines=lines, recs=recs, tags=dict(tags), err=None)
    except Exception:
        import traceback
        return dict(cfg=cfg, ops=ops, lines=[], recs=[], tags={}, err=traceback.format_exc()[-1500:])
    finally:
        os.chdir(cwd)
        rm_rf(tmp)


def monitor(tr):
    """C08 evaluated directly on the implementation trace (overlay algebra, no model)"""
    viol = []
    prev = None
    for rec in tr['recs']:
        if rec.get('line') is None: continue
        o = rec['obs']; kind = rec['op'][0]
        if prev is not None and o['exc'] is None:
            pm, pa = dict(map(tuple, prev['mem'])), (None if prev['arch'] is None else dict(map(tuple, prev['arch'])))
            m, a = dict(map(tuple, o['mem'])), (None if o['arch'] is None else dict(map(tuple, o['arch'])))
            def bad(msg): viol.append(dict(prop='C08', i=rec['i'], sig=dict(kind='algebra', op=kind), msg='%s: %s' % (kind, msg)))
            if kind in ('open', 'setarch') and rec.get('is_new') is False:
                bad('open(B) / archive = B: the attached archive is not B (the cache kept an archive that compares equal to B; later dumps go there)')
            if kind == 'drop' and (o['archived'] or a is not None or o['swap'] is not None):
                bad('drop() left an archive attached or parked (a later archived(True) / dump would reach it)')
            if kind == 'off' and (o['archived'] or a is not None):
                bad('archived(False) left an archive attached')
            if kind == 'on' and pa is None and prev['swap'] is not None and a != dict(map(tuple, prev['swap'])):
                bad('archived(True) did not restore the parked archive')
            if kind in ('put', 'del', 'pop', 'clearMem') and (a != pa or o['swap'] != prev['swap']):
                bad('a plain dict operation touched the archive')
            if pa is not None:
                if kind == 'dumpAll' and (a != {**pa, **pm} or m != pm): bad('dump(): archive %r, expected arch overlaid by cache' % a)
                if kind == 'dump':
                    ks = rec['op'][1]
                    exp = dict(pa); exp.update({k: pm[k] for k in ks if k in pm})
                    if a != exp or m != pm: bad('dump(keys): archive %r expected %r' % (a, exp))
                if kind == 'loadAll' and (m != {**pm, **pa} or a != pa): bad('load(): cache %r' % m)
                if kind == 'load':
                    ks = rec['op'][1]
                    exp = dict(pm); exp.update({k: pa[k] for k in ks if k in pa})
                    if m != exp or a != pa: bad('load(keys): cache %r expected %r' % (m, exp))
                if kind == 'sync' and not (m == a == {**pa, **pm}): bad('sync(): cache %r archive %r' % (m, a))
                if kind == 'syncc' and not (a == pm and m == pm): bad('sync(clear=True): cache %r archive %r' % (m, a))
            else:
                if kind in ('dumpAll', 'dump', 'loadAll', 'load', 'sync', 'syncc') and (m != pm or a is not None or o['swap'] != prev['swap']):
                    bad('with archiving off / a null archive the operation is not a no-op')
        prev = o
    return viol


def work(a):
    tier, idx = a
    cfg, ops = gen(tier, idx)
    return run_trace(cfg, ops)


def _analyse(prop, trs):
    lines = []
    for tr in trs: lines += [json.dumps(l) for l in tr['lines']]
    outs = run_driver(lines) if lines else []
    pos = 0
    divs, viols = [], []
    tags = collections.Counter()
    nontrivial = set()
    for tr in trs:
        n = len(tr['lines'])
        mo = outs[pos + 1:pos + n]; pos += n
        tags.update(tr['tags'])
        if any(tr['tags'].get(t) for t in ('on', 'off', 'sync', 'syncc', 'load', 'dump', 'open', 'setarch', 'drop')):
            nontrivial.add(hashlib.sha256(json.dumps([tr['cfg'], tr['ops']]).encode()).hexdigest())
        j = 0
        for rec in tr['recs']:
            if rec.get('line') is None: continue
            m = mo[j]; j += 1
            if 'bad-op' in m: raise NoVerdict('driver rejected %r: %r' % (rec['line'], m))
            mm = dict(exc=m['exc'], mem=sorted(m['mem']), arch=None if m['arch'] is None else sorted(m['arch']),
                      swap=None if m['swap'] is None else sorted(m['swap']), archived=m['arch'] is not None)
            if mm != rec['obs']:
                divs.append(dict(detail=dict(i=rec['i'], op=rec['op'], impl=rec['obs'], model=mm), cfg=tr['cfg'], ops=tr['ops'])); break
        for v in monitor(tr):
            viols.append(dict(v, cfg=tr['cfg'], ops=tr['ops']))
    return divs, viols, tags, len(nontrivial)


def explore(prop, tier):
    with Pool(NPROC) as p:
        trs = p.map(work, [(tier, i) for i in range(NTRACES[tier])], chunksize=4)
    errors = [t['err'] for t in trs if t['err']]
    trs = [t for t in trs if not t['err']]
    divs, viols, tags, nontriv = _analyse(prop, trs)
    hist = collections.Counter(t['cfg']['kind'] for t in trs)
    return dict(suite='cache', traces=len(trs), evaluations=sum(len(t['recs']) for t in trs), distinct_nontrivial=nontriv,
                tags=dict(tags), divergences=divs, violations=viols, samples=[dict(cfg=t['cfg'], ops=t['ops'][:10]) for t in trs[:2]],
                errors=errors, rule=RULE, required_tags=['on', 'off', 'sync', 'syncc', 'load', 'dump', 'open', 'drop'],
                config_histogram=dict(hist))


def replay(prop, obj):
    tr = run_trace(obj['cfg'], obj['ops'])
    if tr['err']: raise NoVerdict(tr['err'])
    divs, viols, _, _ = _analyse(prop, [tr])
    return dict(violations=[dict(prop='C08', sig=v['sig'], msg=v['msg'], i=v['i']) for v in viols],
                divergence=divs[0]['detail'] if divs else None)


def shrink_and_save(prop, v):
    cfg = v['cfg']
    def fails(ops):
        tr = run_trace(cfg, ops)
        return (not tr['err']) and any(x['sig'] == v['sig'] for x in monitor(tr))
    ops = v['ops'][:v['i'] + 1]
    ops = ddmin(ops, fails, 120) if fails(ops) else v['ops']
    return write_replay(prop, 'violation', dict(suite='cache', property=prop, cfg=cfg, ops=ops, signature=v['sig'], message=v['msg']))


def search(prop, tier, divergences, budget_s, known):
    t0 = time.time(); rnd = 0
    while time.time() - t0 < budget_s:
        with Pool(NPROC) as p:
            trs = p.map(work, [('search%d' % rnd, i) for i in range(NPROC * 8)])
        rnd += 1
        for tr in trs:
            if tr['err']: continue
            for v in monitor(tr):
                return shrink_and_save(prop, dict(v, cfg=tr['cfg'], ops=tr['ops']))
    return None
