"""canonical, process-independent description of keys and values (suites `persist`, `fs`, `sched`):
equal under Python == <=> same canonical form, except that list/tuple/set/dict and str/bytes keep their type"""
import json, hashlib
from fractions import Fraction


def kj(k):
    if isinstance(k, bool): return {'bool': k}
    if isinstance(k, int): return {'i': k}
    if isinstance(k, str): return {'s': k}
    if isinstance(k, bytes): return {'b': k.hex(), 'md5': hashlib.md5(repr(k).encode()).hexdigest()}
    if isinstance(k, tuple): return {'t': [kj(x) for x in k]}
    if isinstance(k, float): return {'f': repr(k)}
    return {'other': '%s:%r' % (type(k).__name__, k)}


def kcanon(k):
    return json.dumps(kj(k), sort_keys=True)


def canonv(v):
    if v is None: return 'None'
    if isinstance(v, (bool, int)): return ['num', str(int(v))]
    if isinstance(v, float):
        if v != v: return ['num', 'nan']
        if v in (float('inf'), float('-inf')): return ['num', repr(v)]
        return ['num', str(Fraction(v))]
    if isinstance(v, str): return ['s', v]
    if isinstance(v, bytes): return ['b', v.hex()]
    if isinstance(v, tuple): return ['t', [canonv(x) for x in v]]
    if isinstance(v, list): return ['l', [canonv(x) for x in v]]
    if isinstance(v, (set, frozenset)): return ['set', sorted(json.dumps(canonv(x)) for x in v)]
    if isinstance(v, dict): return ['d', sorted(([json.dumps(canonv(k)), canonv(x)] for k, x in v.items()), key=lambda p: p[0])]
    if type(v).__name__ == 'Dyn' and hasattr(v, '__dict__'):
        return ['inst', 'Dyn', canonv(dict(v.__dict__))]
    if callable(v):
        try: return ['fn', getattr(v, '__name__', '?'), canonv(v(3))]
        except Exception as e: return ['fn', getattr(v, '__name__', '?'), 'EXC']
    return ['obj', type(v).__name__]


def canon_items(d):
    return sorted(([kcanon(k), json.dumps(canonv(v), sort_keys=True)] for k, v in d.items()), key=lambda p: p[0])
