"""suite `sched`: replay the recorded schedules on the Lean small-step model (Klepto.Sched) and compare every process's
answer, every writer's system-call program and the final contents"""
import json, os
from common import *
from pcanon import kj, kcanon, canonv
import run_fs as RF

RKIND = dict(getitem='lookup', get='lookup', contains='contains', len='len', keys='keys', asdict='asdict', items='asdict', load='asdict')


def needs_inp(k): return not (isinstance(k, str) and k.replace('-', '_') == k)
def fname(k): return str(k).replace('-', '_')


def build(tr):
    case = tr['case']; cfg = case['cfg']
    vals = {}
    def vid(v):
        c = json.dumps(canonv(v), sort_keys=True)
        if c not in vals: vals[c] = len(vals) + 1
        return vals[c]
    prior = [[kj(k), vid(v), needs_inp(k)] for k, v in case['prior']]
    table = {fname(k): kcanon(k) for k, _ in case['prior']}
    procs = []; eff = []; wprogs = []
    for i, (role, op) in enumerate(case['procs']):
        mine = [s[1:] for s in tr['sched'] if s[0] == i and s[1] != 'start']
        if role == 'writer':
            calls, _ = RF.norm_log(cfg, [m for m in mine if m[0] not in ('read', 'lsdir', 'hasinput', 'lookin', 'lookout', 'exists')])
            inp_first = any(a[0] == 'unlinkIn' and b[0] == 'unlinkOut' and a[1] == b[1] for a, b in zip(calls, calls[1:]))
            d = dict(role='writer', inpFirst=inp_first)
            if op[0] == 'setitem': d.update(what='set', kvs=[[kj(op[1]), vid(op[2]), needs_inp(op[1])]]); table[fname(op[1])] = kcanon(op[1])
            elif op[0] in ('delitem', 'pop'): d.update(what='del', ks=[kj(op[1])])
            else: d.update(what='open')
            procs.append(d); wprogs.append(calls)
        else:
            d = dict(role='reader', kind=RKIND[op[0]], order=[os.path.basename(m[1])[2:] for m in mine if m[0] == 'hasinput'])
            if len(op) > 1: d['k'] = kj(op[1])
            procs.append(d); wprogs.append(None)
    # effective steps: drop the calls that change nothing and that the model does not have
    for s in tr['sched']:
        i, kind, path = s[0], s[1], s[2]
        role = case['procs'][i][0]
        if kind in ('close', 'start'): continue
        if cfg['kind'] == 'dir':
            if role == 'writer' and (path == 'archdir' or kind in ('lsdir', 'hasinput', 'lookin', 'lookout', 'exists')): continue
        else:
            if path == '.': continue
        eff.append(i)
    line = dict(op='sched', kind=cfg['kind'], prior=prior, procs=procs, sched=eff)
    return line, {v: c for c, v in vals.items()}, table, wprogs


def compare(trs):
    divs = []
    if not trs: return divs
    lines = []; meta = []
    ok = []
    for tr in trs:
        try:
            line, vals, table, wprogs = build(tr)
        except Exception as e:
            # the call log has a shape the protocol model cannot express (the code changed): a divergence, not a harness crash
            divs.append(dict(detail=dict(what='call log not expressible in the model: %s: %s' % (type(e).__name__, e), schedule=[s_[:3] for s_ in tr['sched']][:40]),
                             cfg=tr['case']['cfg'], case=dict(scen=tr['case']['scen'], prior=repr(tr['case']['prior']), procs=repr(tr['case']['procs']))))
            continue
        lines += [json.dumps(dict(suite='fs', op='cfg')), json.dumps(line)]
        meta.append((vals, table, wprogs)); ok.append(tr)
    trs = ok
    outs = run_driver(lines) if lines else []
    for n, tr in enumerate(trs):
        m = outs[2 * n + 1]; vals, table, wprogs = meta[n]
        case = tr['case']; cfg = case['cfg']
        if 'bad-op' in m: raise NoVerdict('driver rejected a schedule: %r' % m)
        def div(what, impl, model):
            divs.append(dict(detail=dict(what=what, impl=impl, model=model, schedule=''.join(str(s[0]) for s in tr['sched'])), cfg=cfg,
                             case=dict(scen=case['scen'], prior=repr(case['prior']), procs=repr(case['procs']))))
        bad = False
        if cfg['kind'] == 'dir':
            for i, wp in enumerate(wprogs):
                if wp is not None and m['progs'][i] != wp: div('program of writer %d' % i, wp, m['progs'][i]); bad = True; break
            if bad: continue
            kc = lambda name, real: table.get(name, json.dumps({'s': name})) if real else json.dumps({'s': name})
            for i, ((role, op), res) in enumerate(zip(case['procs'], tr['results'])):
                mr = m['results'][i]
                if role == 'writer': im = res if isinstance(res, str) else 'ok'; mm = mr
                else:
                    if isinstance(res, str): im = 'KeyError' if res.startswith('EXC:KeyError') else res
                    elif 'val' in res: im = 'KeyError' if res['val'] == json.dumps(canonv('<<DEFAULT>>')) else dict(val=res['val'])
                    elif 'keys' in res: im = dict(keys=sorted(res['keys']))
                    elif 'items' in res: im = dict(items=sorted(map(list, res['items'])))
                    else: im = res
                    if isinstance(mr, str): mm = mr
                    elif 'val' in mr: mm = dict(val=vals.get(mr['val'], '?'))
                    elif 'keys' in mr: mm = dict(keys=sorted(kc(a, b) for a, b in mr['keys']))
                    elif 'dict' in mr: mm = dict(items=sorted([kc(a, b), vals.get(v, '?')] for a, b, v in mr['dict']))
                    else: mm = mr
                if im != mm: div('answer of process %d %r' % (i, op), im, mm); bad = True; break
            if bad: continue
            mf = 'raises' if m['final'] is None else sorted([table.get(a, json.dumps({'s': a})), vals.get(v, '?')] for a, v in m['final'])
            fi = tr['final'].get('items', 'raises')
            if fi != mf: div('final contents', fi, mf)
        else:
            kv = lambda l: sorted([json.dumps(k, sort_keys=True), vals.get(v, '?')] for k, v in l)
            for i, ((role, op), res) in enumerate(zip(case['procs'], tr['results'])):
                mr = m['results'][i]
                if role != 'reader': continue
                seen = dict(kv(mr['seen'])) if isinstance(mr, dict) else None
                if seen is None: div('reader unfinished in the model', res, mr); bad = True; break
                if op[0] == 'asdict': mm = dict(items=sorted(map(list, seen.items())))
                elif op[0] == 'len': mm = dict(nat=len(seen))
                elif op[0] == 'getitem': mm = dict(val=seen[kcanon(op[1])]) if kcanon(op[1]) in seen else 'KeyError'
                im = 'KeyError' if isinstance(res, str) and res.startswith('EXC:KeyError') else (dict(items=sorted(map(list, res['items']))) if isinstance(res, dict) and 'items' in res else res)
                if im != mm: div('answer of process %d %r' % (i, op), im, mm); bad = True; break
            if bad: continue
            fi = tr['final'].get('items', 'raises'); mf = kv(m['final'])
            if fi != mf: div('final contents', fi, mf)
    return divs
