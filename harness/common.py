"""Shared machinery of the correspondence harness (see DESIGN.md section 3).

Runs with /venv/bin/python and PYTHONPATH=/repo so that the *working tree* of klepto is what
is imported.  Everything random derives from VERIF_SEED."""
import os, sys, json, time, subprocess, random, hashlib, shutil, tempfile

VERIF = os.path.dirname(os.path.dirname(os.path.abspath(__file__)))
LEAN = os.path.join(VERIF, 'lean')
DRIVER = os.path.join(LEAN, '.lake', 'build', 'bin', 'driver')
REPO = os.environ.get('KLEPTO_REPO', '/repo')
OUT = os.path.join(VERIF, 'out')
SEED = int(os.environ.get('VERIF_SEED', '0') or 0)
NPROC = int(os.environ.get('VERIF_NPROC', '0') or 0) or min(16, os.cpu_count() or 4)

if REPO not in sys.path:
    sys.path.insert(0, REPO)


class NoVerdict(Exception):
    """harness/toolchain problem: exit 2, never a verdict"""


def sub_seed(*parts):
    h = hashlib.sha256(repr((SEED,) + parts).encode()).digest()
    return int.from_bytes(h[:8], 'big')


def rng(*parts):
    return random.Random(sub_seed(*parts))


def rng_for(seed, *parts):
    """PRNG for an explicit seed (replays and corpus entries carry the seed they were found with)"""
    h = hashlib.sha256(repr((seed,) + parts).encode()).digest()
    return random.Random(int.from_bytes(h[:8], 'big'))


# ---------------------------------------------------------------- Lean side
_built = {}

def lake_build(targets=('driver',), timeout=1500):
    """(re)build lake targets; returns (ok, output). A no-op build takes ~0.3 s."""
    key = tuple(targets)
    if key in _built:
        return _built[key]
    t0 = time.time()
    p = subprocess.run(['lake', 'build'] + list(targets), cwd=LEAN, stdout=subprocess.PIPE,
                       stderr=subprocess.STDOUT, text=True, timeout=timeout)
    _built[key] = (p.returncode == 0, p.stdout, time.time() - t0)
    return _built[key]


def run_driver(lines, timeout=900):
    """pipe JSON lines to the compiled Lean driver, return the decoded output lines"""
    ok, out, _ = lake_build(('driver',))
    if not ok or not os.path.exists(DRIVER):
        raise NoVerdict('lean driver does not build:\n' + out[-3000:])
    data = '\n'.join(lines) + '\n'
    p = subprocess.run([DRIVER], input=data, stdout=subprocess.PIPE, stderr=subprocess.PIPE,
                       text=True, timeout=timeout)
    if p.returncode != 0:
        raise NoVerdict('lean driver failed: ' + p.stderr[-2000:])
    outs = [json.loads(l) for l in p.stdout.splitlines() if l.strip()]
    if len(outs) != len(lines):
        raise NoVerdict('lean driver returned %d lines for %d' % (len(outs), len(lines)))
    return outs


# ---------------------------------------------------------------- interning
class Interner:
    """maps Python values to small naturals by ==/hash (what a dict uses)"""
    def __init__(self):
        self.ids = {}
        self.vals = []
    def __call__(self, v):
        try:
            hash(v)
        except TypeError:
            v = ('<unhashable>', repr(v))
        # keep 1 / 1.0 / True apart from each other only if their types differ *and* repr differs
        if v in self.ids and type(self.vals[self.ids[v]]) is type(v):
            return self.ids[v]
        if v in self.ids:
            kk = ('<typed>', type(v).__name__, repr(v))
            if kk not in self.ids:
                self.ids[kk] = len(self.vals); self.vals.append(v)
            return self.ids[kk]
        self.ids[v] = len(self.vals); self.vals.append(v)
        return self.ids[v]
    def value(self, i):
        return self.vals[i]


EXC_NAMES = {'KeyError', 'TypeError', 'ValueError', 'IndexError', 'AttributeError'}

def exc_name(e):
    n = type(e).__name__
    if n in ('Boom', 'Halt'):
        return 'user:%d' % e.args[0]
    return n if n in EXC_NAMES else 'Other'


# ---------------------------------------------------------------- scratch dirs
def scratch_dir(tag='kv'):
    base = os.environ.get('VERIF_SCRATCH') or tempfile.gettempdir()
    return tempfile.mkdtemp(prefix='%s_' % tag, dir=base)


def other_fs_root():
    """a writable directory on another file system than the system temp directory (None when the machine has none): archives
    are not always next to /tmp, and a write protocol that stages its file in the temp directory cannot rename across devices"""
    if os.environ.get('VERIF_SCRATCH'): return None
    try: dev = os.stat(tempfile.gettempdir()).st_dev
    except OSError: return None
    for c in ('/dev/shm', '/run/shm', '/var/tmp', os.path.expanduser('~')):
        try:
            if os.path.isdir(c) and os.access(c, os.W_OK) and os.stat(c).st_dev != dev: return c
        except OSError: pass
    return None


def scratch_dir_for(tag, key):
    """scratch directory of a case: every other case (by a hash of `key`) lives on another file system than the temp directory"""
    import hashlib
    h = int(hashlib.sha256(repr(key).encode()).hexdigest(), 16)
    root = other_fs_root() if h % 2 else None
    if root: return tempfile.mkdtemp(prefix='%s_' % tag, dir=root)
    return scratch_dir(tag)


class fd_budget:
    """context: the process may open only `margin` more file descriptors than it holds now (a long-lived process is one whose
    descriptor table is nearly full); an operation that leaks one descriptor per call runs out within `margin` calls, one that
    closes what it opens never notices.  Applied to every fourth case (by a hash of `key`)."""
    def __init__(self, key, margin=24):
        import hashlib
        self.on = int(hashlib.sha256(('fd' + repr(key)).encode()).hexdigest(), 16) % 4 == 0
        self.margin = margin; self.old = None
    def __enter__(self):
        if not self.on: return self
        try:
            import resource
            top = max(int(x) for x in os.listdir('/proc/self/fd'))
            self.old = resource.getrlimit(resource.RLIMIT_NOFILE)
            resource.setrlimit(resource.RLIMIT_NOFILE, (min(self.old[0], top + 1 + self.margin), self.old[1]))
        except Exception: self.old = None
        return self
    def __exit__(self, *a):
        if self.old is not None:
            import resource
            resource.setrlimit(resource.RLIMIT_NOFILE, self.old)
        return False


def rm_rf(path):
    shutil.rmtree(path, ignore_errors=True)


# ---------------------------------------------------------------- shrinking
def ddmin(ops, fails, max_tests=400):
    """delta debugging over a list of ops; `fails(ops)` -> True if still failing"""
    n = 2
    tests = 0
    ops = list(ops)
    while len(ops) >= 2 and tests < max_tests:
        chunk = max(1, len(ops) // n)
        reduced = False
        for i in range(0, len(ops), chunk):
            cand = ops[:i] + ops[i + chunk:]
            tests += 1
            if cand and fails(cand):
                ops = cand
                n = max(n - 1, 2)
                reduced = True
                break
            if tests >= max_tests:
                break
        if not reduced:
            if chunk == 1:
                break
            n = min(len(ops), n * 2)
    return ops


# ---------------------------------------------------------------- findings
def load_known_findings():
    p = os.path.join(VERIF, 'known_findings.json')
    if not os.path.exists(p):
        return []
    return json.load(open(p)).get('findings', [])


def sig_matches(entry_sig, sig):
    """a monitor signature matches a listed finding if every field listed there is equal"""
    return all(sig.get(k) == v for k, v in entry_sig.items())


def write_replay(prop, name, obj):
    os.makedirs(OUT, exist_ok=True)
    p = os.path.join(OUT, '%s_%s.json' % (prop, name))
    with open(p, 'w') as f:
        json.dump(obj, f, indent=1, default=repr)
    return p


def write_evidence(prop, tier, level, coverage, wall_s, violations, assumptions):
    os.makedirs(os.path.join(VERIF, 'evidence'), exist_ok=True)
    ev = {'property_id': prop, 'tier': tier, 'seed': SEED, 'level': level, 'coverage': coverage,
          'assumptions': assumptions, 'wall_s': round(wall_s, 2), 'violations': violations}
    with open(os.path.join(VERIF, 'evidence', prop + '.json'), 'w') as f:
        json.dump(ev, f, indent=1, default=repr)
    return ev
