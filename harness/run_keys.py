"""suite `keys` (C09 C10 C11, parts of C17 C18): explore / replay / search"""
import re, os, sys, json, time, inspect, functools, collections, traceback
from multiprocessing import Pool
from common import *
import suite_keys as sk

DECORATORS = [(m, a + '_cache') for m in ('klepto', 'safe') for a in ('no', 'inf', 'lfu', 'lru', 'mru', 'rr')]
NPROGS = {'quick': 800, 'thorough': 12000}
RULE = ('generated programs (def sources exec\'d): 0-4 positional-or-keyword params with any suffix defaulted, *args, 0-2 keyword-only '
        '(defaulted or not), **kw; wrapped as function / bound method / function given its instance / callable instance / partial (of function '
        'or bound method); ignore specs over names, indices, *, **, self; calls with arity -2..+2 and unknown keywords; per call: respellings '
        'that CPython binds identically and single-argument mutations; 14 keymap configurations; non-trivial = program with >=1 valid call '
        'that was respelled or mutated')


def self_like(f, args):
    if not inspect.isfunction(f) or not args: return False
    try:
        b = getattr(args[0], f.__name__)
        return getattr(b, '__self__') == args[0]
    except Exception:
        return False


def selected(prog, ign, inst_first):
    """the ignore specification, decomposed (from the property text: names, positional indices, '*', '**', instance)"""
    names = set(i for i in ign if isinstance(i, str))
    idx = set(i for i in ign if isinstance(i, int) and not isinstance(i, bool) and i >= 0)      # (a negative index is no position)
    # positional-or-keyword parameters still open in a call: the underlying ones minus the bound instance
    # minus those consumed by the partial's positionals
    under = sk.pnames(prog)
    if prog['kind'] in ('partial', 'partial_method', 'partial_callable'):
        under = under[prog['p_npos']:]
    remaining = (['self'] if inst_first else []) + under
    shift = 1 if (inst_first and 'self' in names) else 0          # the instance is removed from the key
    return dict(names=names, idx=idx, star='*' in names, dstar='**' in names, remaining=remaining, shift=shift)


def run_program(tier, idx, prog=None, plan=None, seed=None, kms=None):
    """returns dict(lines, recs, viol, tags, err)"""
    from klepto._inspect import _keygen, NULL
    from klepto.keymaps import SENTINEL
    r = rng_for(SEED if seed is None else seed, 'keys', tier, idx)
    try:
        prog = prog or sk.gen_program(r, idx)
        f, src, inst = sk.build_callable(prog)
        # every third program has a sibling: another function object with the SAME code object but other defaults (what a factory
        # closure or a loop of lambdas produces); it is keyed first, so anything remembered per code object would be remembered wrongly
        sib_done = False; sib_defaults = {}
        if idx % 3 == 0:
            try:
                import types
                g = f.func if isinstance(f, functools.partial) else f
                g = getattr(g, '__func__', g)
                if inspect.isfunction(g):
                    sib = types.FunctionType(g.__code__, g.__globals__, g.__name__, tuple('sib%d' % i for i in range(len(g.__defaults__ or ()))), g.__closure__)
                    sib.__kwdefaults__ = {k: 'sibkw' for k in (g.__kwdefaults__ or {})} or None
                    spec = inspect.getfullargspec(sib)
                    a0 = ['s'] * (len(spec.args) - len(spec.defaults or ()))
                    k0 = {n: 's' for n in spec.kwonlyargs if n not in (spec.kwonlydefaults or {})}
                    _keygen(sib, (), *a0, **k0)
                    sib_done = True
                    sib_defaults = dict(zip(spec.args[len(spec.args) - len(spec.defaults or ()):], spec.defaults or ()), **(spec.kwonlydefaults or {}))
            except Exception:
                pass
        I = sk.KInterner()
        consts = dict(null=I(NULL), star=I('*'), dstar=I('**'))
        sent = I(SENTINEL)
        desc = sk.describe(f, I)
        inst_first = prog['kind'] == 'unbound'
        try: sig = sk.true_signature(f)
        except (ValueError, TypeError): sig = None      # e.g. a partial that can never be called
        recs, viol = [], []
        tags = collections.Counter()
        tags['kind=' + prog['kind']] += 1
        if sib_done: tags['sibling-keyed-first'] += 1
        kms = [(k_, dict(o_)) for k_, o_ in kms] if kms else [sk.KEYMAPS[(idx + j) % len(sk.KEYMAPS)] for j in range(4)]
        ncalls = 6
        plan_out = []
        INST = '<INST>'
        def enc_v(x): return INST if (inst is not None and x is inst) else sk.OBJ_MARK.get(id(x), x)
        def dec_v(x): return inst if (isinstance(x, str) and x == INST) else (sk.OBJ_BY_MARK.get(x, x) if isinstance(x, str) else x)
        def enc_args(a): return repr([enc_v(x) for x in a])
        def dec_args(sx): return [dec_v(x) for x in eval(sx)]
        def enc_kw(k): return repr({n: enc_v(v) for n, v in k.items()})
        def dec_kw(sx): return {n: dec_v(v) for n, v in eval(sx).items()}
        if plan is not None: ncalls = len(plan)
        npo_names = set(sk.pnames(prog, min(prog.get('nposonly', 0), prog['npos'])))
        if npo_names and prog['kind'] not in ('func', 'partial', 'wrapped'): npo_names.add('self')      # `def m(self, x, /)`: self is positional-only too
        for ci in range(ncalls):
            nviol0 = len(viol)
            if plan is not None:
                ign = tuple(eval(plan[ci]['ign']))
                group = [tuple([g[0], dec_args(g[1]), dec_kw(g[2])] + ([tuple(g[3])] if len(g) > 3 and g[3] is not None else [])) for g in plan[ci]['group']]
                args, kw = group[0][1], group[0][2]
                # a stored same-object pair (equal values as ONE object in the base call, as two objects in its respelling): the text
                # of a plan cannot say which values were one object, so it is re-established here
                for g_ in group[1:]:
                    if g_[0] == 'respell' and g_[1] == args and g_[2] == kw:
                        for j_ in range(len(args) - 1):
                            if isinstance(args[j_], (str, tuple)) and len(args[j_]) > 1 and args[j_] == args[j_ + 1]:
                                args[j_ + 1] = args[j_]
                                g_[1][j_] = args[j_]; g_[1][j_ + 1] = ''.join(list(args[j_])) if isinstance(args[j_], str) else tuple(list(args[j_]))
                                plan_sameobj = True
                                break
                sel0 = selected(prog, ign, inst_first)
            else:
              ign = sk.gen_ignore(r, prog)
              malformed = r.random() < 0.1
              args, kw = sk.gen_call(r, prog, malformed)
              if inst_first: args = [inst] + args
              if idx % 10 == 3 and ci < 3 and prog['kind'] == 'func' and prog['npos'] >= 1 and args and not malformed:
                  # stratum: a plain function whose first argument is an object with a non-method attribute named like the
                  # function, and whose first parameter is hidden by name
                  args = [sk.OBJS[(idx // 10 + ci) % len(sk.OBJS)]] + list(args[1:])
                  if sk.pnames(prog)[0] not in ign: ign = tuple(ign) + (sk.pnames(prog)[0],)
                  tags['first-argument-has-attribute-named-like-the-function'] += 1
            # the call group: base, respellings (same binding), single-value mutations
            if plan is None: group = [('base', args, kw)]
            for a2, k2 in (sk.respell(r, f, args, kw, inst_first)[:3] if (sig is not None and plan is None) else []):
                group.append(('respell', a2, k2))
            sameobj = bool(locals().get('plan_sameobj')); plan_sameobj = False
            # equal values as ONE object vs as two distinct objects (a key must depend on values, not on object identity)
            if plan is None and sig is not None and len(args) >= (3 if inst_first else 2) and not kw and r.random() < 0.3:
                v = r.choice(['shared-%d' % idx, ('t', idx)])
                v2 = ''.join(list(v)) if isinstance(v, str) else tuple(list(v))
                i0 = 1 if inst_first else 0
                a_same = list(args); a_same[i0] = v; a_same[i0 + 1] = v
                a_dist = list(args); a_dist[i0] = v; a_dist[i0 + 1] = v2
                group = [('base', a_same, dict(kw)), ('respell', a_dist, dict(kw))]
                args = a_same
                tags['same-object-pair'] += 1; sameobj = True
            valid = True
            sel0 = selected(prog, ign, inst_first)
            try: sk.full_bind(f, args, kw); ba0 = sk.sbind(sig, args, kw)
            except (TypeError, AttributeError, ValueError): valid = False
            if valid and plan is not None:
                tags['valid'] += 1
            elif valid:
                tags['valid'] += 1
                for _ in range(2):
                    a3, k3 = list(args), dict(kw)
                    where = None
                    cand = [('a', i) for i in range(1 if inst_first else 0, len(a3))] + [('k', n) for n in k3]
                    if not cand: break
                    kind, pos = r.choice(cand)
                    old = a3[pos] if kind == 'a' else k3[pos]
                    new = r.choice([v for v in sk.CALL_POOL if not (v == old)])
                    # every fourth mutation: the value vs the text of its own repr ('1' for 1, "'a'" for 'a') - encoders that go through
                    # str()/repr() must still tell them apart
                    if r.random() < (0.6 if (len(args) == 1 and not kw) else 0.25) and old is not inst and not isinstance(old, sk.Obj): new = repr(old)
                    if kind == 'a': a3[pos] = new
                    else: k3[pos] = new
                    try: sk.full_bind(f, a3, k3); sk.sbind(sig, a3, k3)
                    except (TypeError, ValueError): continue
                    group.append(('mutate', a3, k3, (kind, pos)))
                # a default left implicit vs the same parameter given another value (the sibling's default, when there is a sibling)
                implicit = [p for p in sig.parameters.values() if p.kind in (p.POSITIONAL_OR_KEYWORD, p.KEYWORD_ONLY)
                            and p.default is not p.empty and p.name not in ba0.arguments]
                if implicit:
                    p = r.choice(implicit)
                    other = [v for v in ([sib_defaults[p.name]] if p.name in sib_defaults else sk.POOL) if not (v == p.default)]
                    if other:
                        a5, k5 = list(args), dict(kw, **{p.name: r.choice(other)})
                        try:
                            sk.full_bind(f, a5, k5); sk.sbind(sig, a5, k5)
                            group.append(('mutate', a5, k5, ('k', p.name)))
                            tags['default-vs-given'] += 1
                        except (TypeError, ValueError): pass
                # extra keywords moved to the positional tail as name, value, ... (flat keys keep the two apart only by the sentinel)
                if prog['varargs'] and prog['varkw'] and not ign and not inst_first:
                    try: extras = sorted(sk.full_bind(f, args, kw)[2].items())
                    except (TypeError, ValueError): extras = []
                    if extras and all(n in kw for n, _ in extras):
                        a6 = list(args) + [x for it in extras for x in it]
                        k6 = {n: v for n, v in kw.items() if n not in dict(extras)}
                        try:
                            n6 = sk.full_bind(f, a6, k6)
                            if n6[0] == sk.full_bind(f, args, kw)[0] and not n6[2]:      # same named binding, only tail/keywords moved
                                sk.sbind(sig, a6, k6)
                                group.append(('tailkw', a6, k6))
                        except (TypeError, ValueError): pass
                # one tuple argument vs its elements spread over *args (`g((1, 2))` / `g(1, 2)`): different calls, and the flat key
                # `((1, 2),)` must not be unwrapped into `(1, 2)`
                if prog['varargs'] and prog['npos'] == 0 and not kw and not ign and not inst_first and len(args) == 1 and prog['kind'] in ('func', 'wrapped'):
                    t = r.choice([(1, 2), ('a', 0.5), (7,)])
                    group = [('base', [t], {}), ('tailkw', list(t), {})]
                    args = [t]
                    tags['spread-pair'] += 1
                    if (idx + ci) % 2:
                        # positionals whose texts run together to the same text: (1, 23) (12, 3) (1, 2, 3) (123) and ('ab', 'c') ('a', 'bc')
                        # - different calls: an encoder has to keep the boundaries between the items
                        alts = r.choice([[[1, 23], [12, 3], [1, 2, 3], [123]], [['ab', 'c'], ['a', 'bc'], ['abc']], [[1.5, 2], [1.0, 52], [1, 0.52]]])
                        group = [('base', alts[0], {})] + [('tailkw', a_, {}) for a_ in alts[1:]]
                        args = alts[0]
                        tags['resplit-pair'] += 1
                # typed clause: ==-equal values of different type (1, 1.0, True), also swapped across two
                # parameters with the keywords spelled in the opposite order
                a4, k4 = list(args), dict(kw)
                cand = [('a', i) for i in range(1 if inst_first else 0, len(a4)) if type(a4[i]) in (int, float, bool) and a4[i] in (0, 1)] + \
                       [('k', n) for n in k4 if type(k4[n]) in (int, float, bool) and k4[n] in (0, 1)]
                if cand:
                    kind, pos = r.choice(cand)
                    old = a4[pos] if kind == 'a' else k4[pos]
                    new = r.choice([t(old) for t in (int, float, bool) if t is not type(old)])
                    if kind == 'a': a4[pos] = new
                    else: k4[pos] = new
                    try:
                        sk.full_bind(f, a4, k4); sk.sbind(sig, a4, k4)
                        group.append(('retype', a4, k4, (kind, pos)))
                    except (TypeError, ValueError): pass
                names2 = [n for n in sk.pnames(prog) if n in sel0['remaining']][:2]
                if len(names2) == 2 and not inst_first:
                    try:
                        ka, kb = {names2[0]: 1, names2[1]: 1.0}, {names2[1]: 1, names2[0]: 1.0}
                        sk.full_bind(f, [], ka); sk.full_bind(f, [], kb); sk.sbind(sig, [], ka); sk.sbind(sig, [], kb)
                        group.append(('swapA', [], ka)); group.append(('swapB', [], kb))
                    except (TypeError, ValueError): pass
            else:
                tags['invalid'] += 1
            sel = selected(prog, ign, inst_first)
            plan_out.append(dict(ign=repr(ign), group=[[g[0], enc_args(g[1]), enc_kw(g[2]), list(g[3]) if len(g) > 3 else None] for g in group]))
            group_keys = []
            for g in group:
                gkind, a, k = g[0], g[1], g[2]
                tags[gkind] += 1
                rec = dict(ci=ci, gkind=gkind, ign=[repr(i) for i in ign], args=[repr(x) for x in a], kw={n: repr(v) for n, v in k.items()})
                sl = self_like(f, a)
                # (a negative integer is an int - not a name - and no position of `enumerate`: the model's third constructor)
                ignj = [(({'i': i} if i >= 0 else {'neg': -i - 1}) if isinstance(i, int) and not isinstance(i, bool) else {'n': I(i)}) for i in ign]
                call = dict(ign=ignj, args=[I(x) for x in a], kwds=[[I(n), I(v)] for n, v in k.items()], selfLike=sl)
                # --- _keygen
                try:
                    # (every other call group hands the specification over as a list built for this one call, as `ignore=[...]` literals do)
                    ua, uk = _keygen(f, list(ign) if ci % 2 else ign, *a, **k)
                    rec['keygen'] = dict(va=[I(x) for x in ua], kw=[[I(n), I(v)] for n, v in uk.items()])
                except Exception as e:
                    rec['keygen'] = dict(exc=exc_name(e)); ua = uk = None
                rec['keygen_line'] = dict(call, op='keygen')
                # --- CPython binding (oracle) vs the Lean specification `bind`
                try:
                    named, epos, ekw = sk.full_bind(f, a, k)
                    rec['bind'] = dict(named=sorted([I(n), I(v)] for n, v in named.items()), extraPos=[I(x) for x in epos],
                                       extraKw=sorted([I(n), I(v)] for n, v in ekw.items()))
                except (TypeError, ValueError):
                    rec['bind'] = None
                try:
                    ba = sk.sbind(sig, a, k); ba.apply_defaults()
                    rec['can'] = sk.canonical_binding(sig, ba)
                except (TypeError, AttributeError):
                    rec['can'] = None
                # --- validate / isvalid (C19): verdict, and the function must not have been called
                from klepto._inspect import isvalid, validate
                n0 = len(sk.CALLS)
                try: iv = bool(isvalid(f, *a, **k))
                except Exception as e: iv = 'EXC:' + exc_name(e)
                try:
                    validate(f, *a, **k); vv = True
                except TypeError: vv = False
                except Exception as e: vv = 'EXC:' + exc_name(e)
                rec['isvalid'], rec['validate'], rec['called'] = iv, vv, len(sk.CALLS) - n0
                rec['really_valid'] = rec['bind'] is not None
                rec['validate_line'] = dict(call, op='validate')
                if iv != rec['really_valid'] or vv != rec['really_valid'] or rec['called']:
                    kwonly_involved = prog['nkw'] > 0
                    pfix = prog['kind'].startswith('partial') and prog['p_npos'] > (prog['npos'] - prog['ndef']) and not prog['varargs']
                    viol.append(dict(prop='C19', sig=dict(kind='called-the-function' if rec['called'] else 'wrong-verdict', kwonly=kwonly_involved,
                                                          partial_fixes_default=bool(pfix), partial_method=prog['kind'] in ('partial_method', 'partial_callable'), partial_callable=prog['kind'] == 'partial_callable',
                                                          partial_kw=prog['kind'].startswith('partial') and prog['p_kw'],
                                                          says=str(iv), really=rec['really_valid']),
                                     msg='isvalid=%r validate=%r but binding %s; called=%d; call %r %r' % (iv, vv, 'succeeds' if rec['really_valid'] else 'fails', rec['called'], rec['args'], rec['kw']),
                                     item=dict(ci=ci)))
                rec['bind_line'] = dict(op='bind', args=call['args'], kwds=call['kwds'], selfLike=False, **{'self': I(inst) if inst is not None else 0})
                # --- keymaps
                rec['keys'] = []
                if ua is not None:
                    for kmk, kmo in kms:
                        km = sk.make_km(kmk, kmo)
                        ent = dict(km=[kmk, kmo])
                        tags['keymap=' + kmk] += 1
                        try:
                            key = km(*ua, **uk)
                            try: hash(key); ent['hashable'] = True
                            except TypeError: ent['hashable'] = False
                            ent['key'] = key
                        except Exception as e:
                            ent['exc'] = exc_name(e)
                        ent['line'] = dict(call, op='key', km=dict(typed=bool(kmo.get('typed')), flat=kmo.get('flat', True),
                                                                  mark=sent if kmo.get('sentinel') else None))
                        if kmk == 'chain':
                            io = kmo['_inner'][1]
                            ent['line'].update(inner=dict(typed=bool(io.get('typed')), flat=io.get('flat', True), mark=sent if io.get('sentinel') else None),
                                               tupTy=I(tuple))
                        rec['keys'].append(ent)
                    # the same key through a real decorator (one of the twelve classes, by program index):
                    # its own `key()` site, its own handling of the `ignore` argument (bare int / str allowed)
                    kmk, kmo = kms[0]
                    ent = dict(km=[kmk, kmo], dec=DECORATORS[idx % 12])
                    try:
                        import klepto, klepto.safe
                        mod, nm = DECORATORS[idx % 12]
                        D = getattr(klepto.safe if mod == 'safe' else klepto, nm)
                        ignarg = ign[0] if (len(ign) == 1 and (idx // 12) % 2 == 0) else ((list(ign) if ci % 2 else ign) if ign else None)
                        # (the bounded classes hand maxsize=None / maxsize=0 over to inf_cache / no_cache in __new__: every third program goes that way)
                        msz = {} if nm in ('no_cache', 'inf_cache') or (idx // 12) % 3 == 0 else dict(maxsize=[None, 0][(idx // 36) % 2])
                        d = D(keymap=sk.make_km(kmk, kmo), ignore=ignarg, **msz)(f)
                        # C18: `__wrapped__` is the callable that was decorated - whatever kind of callable it is
                        if ci == 0 and getattr(d, '__wrapped__', None) is not f:
                            viol.append(dict(prop='C18', sig=dict(kind='wrapped-is-not-the-original', callable=prog.get('kind')),
                                             msg='%s.%s over a %s: __wrapped__ is %.80r, the decorated callable is %.80r' % (
                                                 mod, nm, prog.get('kind'), getattr(d, '__wrapped__', None), f), item=dict(ci=ci)))
                        ent['key'] = d.key(*a, **k)
                        # C18: key() is the slot - make the call (when CPython accepts it) and look for the key among what it stored
                        if rec['bind'] is not None and nm != 'no_cache' and msz.get('maxsize', 1) != 0:
                            try:
                                hash(ent['key'])
                                before = set(d.__cache__()); d(*a, **k); added = set(d.__cache__()) - before
                                tags['C18-slot'] += 1
                                if added and ent['key'] not in added:
                                    viol.append(dict(prop='C18', sig=dict(kind='key-not-the-slot', dec='%s.%s' % (mod, nm), bare_ignore=isinstance(ignarg, (str, int))),
                                                     msg='%s.%s(%s%r, ignore=%r): key%r %r = %.100r but the call was stored under %.200r' % (
                                                         mod, nm, kmk, kmo, ignarg, tuple(rec['args']), rec['kw'], ent['key'], sorted(added, key=repr)), item=dict(ci=ci)))
                            except TypeError:
                                pass
                    except Exception as e:
                        ent['exc'] = exc_name(e)
                    ent['line'] = dict(call, op='key', km=dict(typed=bool(kmo.get('typed')), flat=kmo.get('flat', True),
                                                              mark=sent if kmo.get('sentinel') else None))
                    if kmk == 'chain':
                        io = kmo['_inner'][1]
                        ent['line'].update(inner=dict(typed=bool(io.get('typed')), flat=io.get('flat', True), mark=sent if io.get('sentinel') else None),
                                           tupTy=I(tuple))
                    rec['keys'].append(ent)
                # --- a call that Python accepts, with hashable arguments, must have a key: the standard decorators raise what
                #     key generation raises, so the caller gets an exception instead of the function's result (C01)
                def _hashable(v):
                    try: hash(v); return True
                    except TypeError: return False
                def _encodable(v):
                    if kms[0][0] == 'stringl':
                        # (a keymap with a narrow codec has no key for text outside the codec: the user's choice of codec, not a defect)
                        try: repr(v).encode('latin_1'); return True
                        except UnicodeEncodeError: return False
                    if kms[0][0] != 'picklep': return True
                    try: __import__('pickle').dumps(v); return True        # (instances of classes made by exec cannot be pickled by reference)
                    except Exception: return False
                def _codec_ok():
                    if ua is None: return True
                    if kms[0][0] == 'picklep':
                        try: __import__('pickle').dumps((ua, uk)); return True      # (defaults and a partial's fixed arguments are in the key too)
                        except Exception: return False
                    if kms[0][0] != 'stringl': return True
                    try: repr((ua, uk)).encode('latin_1'); return True
                    except UnicodeEncodeError: return False
                if rec['bind'] is not None and _codec_ok() and all(_hashable(v) and _encodable(v) for v in list(a) + list(k.values())):
                    tags['valid-hashable-call'] += 1
                    dent = rec['keys'][-1] if rec['keys'] else None
                    if 'exc' in rec['keygen'] or (dent is not None and 'exc' in dent):
                        stage = '_keygen' if 'exc' in rec['keygen'] else 'keymap'
                        viol.append(dict(prop='C01', sig=dict(kind='valid-call-has-no-key', stage=stage, exc=rec['keygen'].get('exc') or dent['exc'],
                                                              param_named_self=bool(uk is not None and 'self' in uk), kind_of_callable=prog['kind'],
                                                              no_named_params=(prog['npos'] == 0 and prog['nkw'] == 0)),
                                         msg='%s%r ignore=%r: the valid call %r %r has no key (%s raised %s); _keygen gave %.200r' % (
                                             kms[0][0], kms[0][1], ign, rec['args'], rec['kw'], stage, rec['keygen'].get('exc') or dent['exc'], (ua, uk)),
                                         item=dict(ci=ci)))
                group_keys.append((g, rec))
                recs.append(rec)
            # ---------------- property monitors on the implementation's own keys
            swaps = [rec for g, rec in group_keys if g[0] in ('swapA', 'swapB')]
            if len(swaps) == 2 and not ign:
                for ea, eb_ in zip(swaps[0]['keys'], swaps[1]['keys']):
                    if 'key' in ea and 'key' in eb_ and ea['km'][1].get('typed'):
                        tags['C10-typed-pair'] += 1
                        if keys_equal(ea['key'], eb_['key']):
                            viol.append(dict(prop='C10', sig=dict(kind='typed-keys-do-not-separate-types', keymap=ea['km'][0], flat=ea['km'][1].get('flat', True), ignore_dstar=False),
                                             msg='%s%r: %r vs %r bind equal values of different types but share key %.200r' % (
                                                 ea['km'][0], ea['km'][1], swaps[0]['kw'], swaps[1]['kw'], ea['key']), item=dict(ci=swaps[0]['ci'])))
            base = group_keys[0][1]
            for g, rec in group_keys[1:]:
                # C11: whether key generation SUCCEEDS must not depend on the value of an ignored argument either
                if g[0] == 'mutate' and mutated_selected(prog, sel, g[3][0], g[3][1], g[1], inst_first) is True \
                   and ('exc' in base['keygen']) != ('exc' in rec['keygen']):
                    viol.append(dict(prop='C11', sig=dict(kind='ignored-argument-decides-whether-there-is-a-key', how=g[3][0], exc=(base['keygen'].get('exc') or rec['keygen'].get('exc'))),
                                     msg='ignore=%r: %r vs %r differ only in an ignored argument; `_keygen` gives %r for one and %r for the other' % (
                                         ign, (base['args'], base['kw']), (rec['args'], rec['kw']), base['keygen'].get('exc', 'a key'), rec['keygen'].get('exc', 'a key')), item=dict(ci=rec['ci'])))
                for eb, er in zip(base['keys'], rec['keys']):
                    if 'key' not in eb or 'key' not in er: continue
                    kmk, kmo = eb['km']
                    flat = kmo.get('flat', True)
                    same = keys_equal(eb['key'], er['key'])
                    if g[0] == 'respell' and rec['can'] == base['can'] and base['can'] is not None:
                        tags['C09-pair'] += 1
                        if not same:
                            # (non-flat encoded keys depend on the order of the keyword dict `_keygen` returns: listed weakness F11; whether THIS pair
                            #  is one the unchanged code already keys differently is judged with the model, in `analyse`)
                            order_only = (not flat) and kmk != 'raw'
                            viol.append(dict(prop='C09', sig=dict(kind='respelled-call-different-key', flat=flat, keymap=kmk, nonflat_order=order_only,
                                                                  ignore_dstar='**' in ign, partial=prog['kind'].startswith('partial')),
                                             msg='%s%r: %r and %r bind identically but keys %.200r != %.200r (ignore=%r)' % (kmk, kmo, (base['args'], base['kw']), (rec['args'], rec['kw']), eb['key'], er['key'], ign),
                                             item=dict(ci=rec['ci'])))
                    if g[0] == 'retype' and bool(kmo.get('typed')):
                        is_sel = mutated_selected(prog, sel, g[3][0], g[3][1], g[1], inst_first)
                        if is_sel is False and ((not flat) or kmo.get('sentinel') or not prog['varargs']):
                            tags['C10-typed-pair'] += 1
                            if same:
                                viol.append(dict(prop='C10', sig=dict(kind='typed-keys-do-not-separate-types', keymap=kmk, flat=flat, ignore_dstar='**' in ign,
                                                                      kwonly=(g[3][0] == 'k' and g[3][1] in sk.KWONLY[:prog['nkw']])),
                                                 msg='%s%r ignore=%r: %r vs %r differ in the type of an argument but share key %.200r' % (
                                                     kmk, kmo, ign, (base['args'], base['kw']), (rec['args'], rec['kw']), eb['key']), item=dict(ci=rec['ci'])))
                    if g[0] == 'tailkw' and ((not flat) or kmo.get('sentinel')):
                        tags['C10-pair'] += 1; tags['tail-vs-keywords'] += 1
                        if same:
                            viol.append(dict(prop='C10', sig=dict(kind='different-calls-share-key', keymap=kmk, flat=flat, typed=bool(kmo.get('typed')),
                                                                  ignore_dstar=False, str_unwrap=False, tail_vs_keywords=True),
                                             msg='%s%r: %r vs %r (keywords moved to the positional tail) bind different values but share key %r' % (
                                                 kmk, kmo, (base['args'], base['kw']), (rec['args'], rec['kw']), eb['key']), item=dict(ci=rec['ci'])))
                    if g[0] == 'mutate':
                        kind, pos = g[3]
                        is_sel = mutated_selected(prog, sel, kind, pos, g[1], inst_first)
                        typed = bool(kmo.get('typed'))
                        if is_sel is True:
                            tags['C11-pair'] += 1
                            if not same:
                                viol.append(dict(prop='C11', sig=dict(kind='ignored-argument-changes-key', keymap=kmk, how=kind, ignore_dstar='**' in ign,
                                                                      kwonly=(kind == 'k' and pos in sk.KWONLY[:prog['nkw']])),
                                                 msg='%s%r ignore=%r: %r vs %r differ only in an ignored argument but keys differ: %r != %r' % (
                                                     kmk, kmo, ign, (base['args'], base['kw']), (rec['args'], rec['kw']), eb['key'], er['key']), item=dict(ci=rec['ci'])))
                        elif is_sel is False:
                            info_preserving = (not flat) or kmo.get('sentinel') or not prog['varargs']
                            if info_preserving:
                                tags['C10-pair'] += 1
                                if same:
                                    viol.append(dict(prop='C10', sig=dict(kind='different-calls-share-key', keymap=kmk, flat=flat, typed=typed,
                                                                          ignore_dstar='**' in ign,
                                                                          str_unwrap=(kmk == 'string' and flat and not typed and all(len(q['keygen'].get('va', ())) == 1 and not q['keygen'].get('kw') for q in (base, rec)))),
                                                     msg='%s%r ignore=%r: %r vs %r bind different values but share key %r' % (
                                                         kmk, kmo, ign, (base['args'], base['kw']), (rec['args'], rec['kw']), eb['key']), item=dict(ci=rec['ci'])))
                                    if ign:
                                        viol.append(dict(viol[-1], prop='C11', sig=dict(viol[-1]['sig'], kind='non-ignored-argument-does-not-discriminate')))
            # positional-only parameters: which violations of this call group involve a keyword that shares such a parameter's name
            po_kw = bool(npo_names and (any(n in npo_names for g in group for n in g[2]) or
                                        (prog['kind'].startswith('partial') and prog['p_kw'] and prog['p_kwname'] in npo_names)))
            for v in viol[nviol0:]:
                v['sig'] = dict(v['sig'], posonly=bool(npo_names), posonly_name_as_keyword=po_kw)
                if v['prop'] == 'C09': v['sig']['same_object_pair'] = sameobj
        # ---------------- model lines
        names_sorted = sorted(set(o for o in I.objs if isinstance(o, str)))
        ty = []
        n0 = 0
        while n0 < len(I.objs):          # interning types may add new objects
            for i in range(n0, len(I.objs)):
                ty.append([i, I(type(I.objs[i]))])
            n0 = len(ty)
        fast = [I(t) for t in (int, str, bytes, frozenset, type(None))]
        ty += [[i, I(type(I.objs[i]))] for i in range(len(ty), len(I.objs))]
        cfg = dict(suite='keys', op='cfg', order=[I(n) for n in names_sorted], ty=ty, fast=fast, func=desc, **consts)
        return dict(idx=idx, prog=prog, src=src, cfg=cfg, recs=recs, viol=viol, tags=dict(tags), objs=I, err=None, plan=plan_out, kms=[[k_, o_] for k_, o_ in kms])
    except Exception:
        return dict(idx=idx, prog=prog, err=traceback.format_exc()[-1800:], recs=[], viol=[], tags={})


def mutated_selected(prog, sel, kind, pos, args, inst_first):
    """is the mutated argument selected by the ignore specification? None = not claimed either way"""
    rem = sel['remaining'][sel['shift']:]
    if kind == 'a':
        i = pos - sel['shift']
        if i < 0: return None
        if i < len(rem):
            return (rem[i] in sel['names']) or (i in sel['idx'])
        if not prog['varargs']: return None
        return sel['star'] or (i in sel['idx'])
    name = pos
    if name in sk.pnames(prog, min(prog.get('nposonly', 0), prog['npos'])):
        # a keyword that merely shares the name of a positional-only parameter is an extra keyword (it lands in **kw)
        if not prog['varkw'] or sel['dstar'] or sel['idx'] or name in sel['names']: return None
        return False
    if name in rem:
        return (name in sel['names']) or (rem.index(name) in sel['idx'])
    if name in sk.KWONLY[:prog['nkw']] or name in sk.pnames(prog):
        return name in sel['names']
    if not prog['varkw']: return None
    return sel['dstar'] or (name in sel['names'])


def keys_equal(a, b):
    try:
        return a == b and type(a) is type(b)
    except Exception:
        return repr(a) == repr(b)


def work(a):
    """run one program on the implementation and on the model (inside the worker: the interned objects
    are instances of exec'd classes and cannot leave the process); returns plain data only"""
    tier, idx = a
    q = run_program(tier, idx)
    if q['err']:
        return dict(idx=idx, err=q['err'], prog=q.get('prog'), src=None, divs=[], viol=[], tags={}, nrecs=0, sample=None)
    try:
        divs = analyse(None, [q])
    except NoVerdict as e:
        return dict(idx=idx, err='NoVerdict: %s' % e, prog=q['prog'], src=q['src'], divs=[], viol=[], tags={}, nrecs=0, sample=None)
    sample = None
    if q['recs']:
        sample = dict(src=q['src'], kind=q['prog']['kind'], first_call={k: q['recs'][0][k] for k in ('ign', 'args', 'kw')},
                      keygen=q['recs'][0]['keygen'])
    return dict(idx=idx, err=None, prog=q['prog'], src=q['src'], divs=divs, viol=q['viol'], tags=q['tags'], nrecs=len(q['recs']), sample=sample, plan=q['plan'])


def intern_key(I, kmk, kmo, key):
    """actual raw key -> ids in the model's shape"""
    flat = kmo.get('flat', True)
    if flat:
        if isinstance(key, tuple): return {'tup': [I(x) for x in key]}
        return {'scalar': I(key)}
    out = dict(args=[I(x) for x in key[0]], kwds=[[I(n), I(v)] for n, v in key[1].items()], types=None)
    if len(key) > 2: out['types'] = [[I(x) for x in key[2]], [I(x) for x in key[3]]]
    return out


def rebuild(I, kmo, m):
    """model structure -> Python object handed to the encoder"""
    if kmo.get('flat', True):
        if 'scalar' in m: return I.obj(m['scalar'])
        return tuple(I.obj(i) for i in m['tup'])
    key = (tuple(I.obj(i) for i in m['args']), dict((I.obj(n), I.obj(v)) for n, v in m['kwds']))
    if m['types'] is not None:
        key += (tuple(I.obj(i) for i in m['types'][0]), tuple(I.obj(i) for i in m['types'][1]))
    return key


def analyse(prop, progs):
    lines = []
    index = []
    for pi, p in enumerate(progs):
        lines.append(json.dumps(p['cfg']))
        for ri, rec in enumerate(p['recs']):
            lines.append(json.dumps(rec['keygen_line'])); index.append((pi, ri, 'keygen', None))
            lines.append(json.dumps(rec['bind_line'])); index.append((pi, ri, 'bind', None))
            lines.append(json.dumps(rec['validate_line'])); index.append((pi, ri, 'validate', None))
            for ki, ent in enumerate(rec['keys']):
                lines.append(json.dumps(ent['line'])); index.append((pi, ri, 'key', ki))
    outs = run_driver(lines) if lines else []
    # strip cfg outputs
    pos = 0; mo = []
    for p in progs:
        if outs[pos] != 'ok': raise NoVerdict('driver rejected keys cfg: %r' % (outs[pos],))
        n = sum(3 + len(r['keys']) for r in p['recs'])
        mo += outs[pos + 1:pos + 1 + n]; pos += 1 + n
    divs = []
    seen = set()
    for (pi, ri, what, ki), m in zip(index, mo):
        p = progs[pi]; rec = p['recs'][ri]; I = p['objs']
        if isinstance(m, dict) and 'bad-op' in m: raise NoVerdict('driver: %r' % m)
        d = None
        if what == 'keygen':
            impl = rec['keygen']
            rec['_model_keygen'] = m
            if 'exc' in impl:
                continue      # the code raised (e.g. IndexError on an empty signature): outside the model
            ign_names = bool(rec['ign'])   # NULL entries are inserted in *set* iteration order
            same = impl['va'] == m['va'] and sorted(impl['kw']) == sorted(m['kw']) and (ign_names or impl['kw'] == m['kw'])
            if not same: d = dict(what='_keygen', impl=impl, model=m)
        elif what == 'validate':
            if rec['validate'] != m['valid']:
                d = dict(what='validate', impl=rec['validate'], model=m['valid'])
        elif what == 'bind':
            impl = rec['bind']
            mm = None if m is None else dict(named=sorted(m['named']), extraPos=m['extraPos'], extraKw=sorted(m['extraKw']))
            if impl != mm: d = dict(what='bind(spec) vs inspect.signature.bind', impl=impl, model=mm)
        else:
            ent = rec['keys'][ki]
            kmk, kmo = ent['km']
            if 'key' not in ent: continue
            if kmk == 'chain' and 'outer' in m:
                # enc_outer(enc_inner(struct_inner((struct_outer,)))): both structured keys come from the model
                outer_obj = rebuild(I, kmo, m['outer'])
                ik, io = kmo['_inner']
                class _X(dict): pass
                Iobj = lambda i: outer_obj if i == 1000000 else I.obj(i)
                mi = m['inner']
                if io.get('flat', True):
                    inner_obj = Iobj(mi['scalar']) if 'scalar' in mi else tuple(Iobj(i) for i in mi['tup'])
                else:
                    inner_obj = (tuple(Iobj(i) for i in mi['args']), dict((Iobj(n), Iobj(v)) for n, v in mi['kwds']))
                    if mi['types'] is not None: inner_obj += (tuple(Iobj(i) for i in mi['types'][0]), tuple(Iobj(i) for i in mi['types'][1]))
                exp = sk.encoder(kmo['_outer_kind'])(sk.encoder(ik)(inner_obj))
                if exp != ent['key']:
                    d = dict(what='encoded key', km=ent['km'], impl=repr(ent['key'])[:200], model=repr(exp)[:200])
            elif kmk == 'raw':
                act = intern_key(I, kmk, kmo, ent['key'])
                if kmo.get('flat', True): same = act == m
                else:
                    ign_names = bool(rec['ign'])   # NULL entries are inserted in *set* iteration order
                    same = act['args'] == m['args'] and act['types'] == m['types'] and sorted(act['kwds']) == sorted(m['kwds']) and (ign_names or act['kwds'] == m['kwds'])
                if not same: d = dict(what='raw key', km=ent['km'], impl=act, model=m)
            elif kmk == 'picklep':
                # real pickle bytes depend on which equal arguments are one object (memo references): compare what they decode to
                import pickle
                try: act = pickle.loads(ent['key'])
                except Exception as e: act = 'UNPICKLABLE:%s' % type(e).__name__
                exp = rebuild(I, kmo, m)
                noaddr = lambda o: re.sub(r' at 0x[0-9a-f]+', '', repr(o))      # (an unpickled instance lives at another address)
                if noaddr(act) != noaddr(exp) and not (bool(rec['ign']) and not kmo.get('flat', True)):
                    d = dict(what='encoded key', km=ent['km'], impl=repr(act)[:200], model=repr(exp)[:200])
            else:
                exp = sk.encoder(kmk)(rebuild(I, kmo, m))
                ign_names = bool(rec['ign'])   # NULL entries are inserted in *set* iteration order
                if exp != ent['key'] and not (ign_names and not kmo.get('flat', True)):
                    d = dict(what='encoded key', km=ent['km'], impl=repr(ent['key'])[:200], model=repr(exp)[:200])
        if d and (pi, what) not in seen:
            seen.add((pi, what))
            divs.append(dict(detail=dict(d, call=dict(ign=rec['ign'], args=rec['args'], kw=rec['kw']), src=p['src']), prog=p['prog'], idx=p['idx']))
    # C09 on NON-FLAT encoded keys, with the model as the judge of what the unchanged code does: two spellings of one call for which the
    # model's `_keygen` returns the SAME ordered keyword list get the same (args, kwds) structure from the unchanged code, hence one key
    # under every encoder.  (Pairs the model orders differently are the listed weakness F11.)
    for p in progs:
        groups = {}
        for rec in p['recs']: groups.setdefault(rec['ci'], []).append(rec)
        for recs in groups.values():
            base = recs[0]
            if base.get('gkind') != 'base' or base.get('can') is None or base.get('ign') or '_model_keygen' not in base: continue
            for rec in recs[1:]:
                if rec.get('gkind') != 'respell' or rec.get('can') != base['can'] or rec.get('_model_keygen') != base['_model_keygen']: continue
                for eb, er in zip(base['keys'], rec['keys']):
                    if 'key' not in eb or 'key' not in er: continue
                    kmk, kmo = eb['km']
                    if kmo.get('flat', True) or kmk == 'raw' or keys_equal(eb['key'], er['key']): continue
                    p['viol'].append(dict(prop='C09', sig=dict(kind='respelled-call-different-key', flat=False, keymap=kmk, nonflat_order=False, model_same_order=True,
                                                                 ignore_dstar=False, partial=p['prog']['kind'].startswith('partial')),
                                          msg='%s%r: %r and %r bind identically, the unchanged `_keygen` returns one and the same ordered (args, kwds) for both, but the keys are %.160r != %.160r' % (
                                              kmk, kmo, (base['args'], base['kw']), (rec['args'], rec['kw']), eb['key'], er['key']), item=dict(ci=rec['ci'])))
                    break
    for p in progs:
        for rec in p['recs']: rec.pop('_model_keygen', None)
    return divs


PROP_DIV = {'C09': ('_keygen', 'raw key', 'encoded key', 'bind(spec) vs inspect.signature.bind'), 'C10': ('_keygen', 'raw key', 'encoded key'),
            'C11': ('_keygen', 'raw key', 'encoded key'), 'C17': ('raw key', 'encoded key'), 'C18': ('_keygen',),
            'C19': ('validate', 'bind(spec) vs inspect.signature.bind'), 'C01': ('raw key', 'encoded key')}
# C01 (transparency) presupposes an information-preserving key: two calls that bind different values must not share a key, or the
# second is answered with the first one's result. Those are C10's monitors; the C01 check runs them too.
ALSO = {'C01': ('C10', 'C01')}


def explore(prop, tier, n=None, offset=0):
    with Pool(NPROC) as p:
        progs = p.map(work, [(tier, offset + i) for i in range(n or NPROGS[tier])], chunksize=4)
    errors = [q['err'] for q in progs if q['err']]
    progs = [q for q in progs if not q['err']]
    divs = [d for q in progs for d in q['divs'] if d['detail']['what'] in PROP_DIV.get(prop, ())]
    viols = []
    tags = collections.Counter()
    nontrivial = 0
    for q in progs:
        tags.update(q['tags'])
        if q['tags'].get('respell') or q['tags'].get('mutate'): nontrivial += 1
        for v in q['viol']:
            if v['prop'] in ALSO.get(prop, (prop,)):
                ci = v.get('item', {}).get('ci')
                v = dict(v, prop=prop)
                viols.append(dict(v, i=0, cfg=dict(tier=tier, idx=q['idx'], seed=SEED, kms=q.get('kms')), ops=q['prog'], src=q['src'],
                                  plan=[q['plan'][ci]] if ci is not None else q['plan']))
    samples = [q['sample'] for q in progs[:3] if q['sample']]
    return dict(suite='keys', traces=len(progs), evaluations=sum(q['nrecs'] for q in progs), distinct_nontrivial=nontrivial,
                tags=dict(tags), divergences=divs, violations=viols, samples=samples, errors=errors, rule=RULE,
                required_tags=['respell', 'mutate', 'C09-pair', 'C10-pair', 'C11-pair', 'kind=partial', 'kind=method', 'kind=callable'],
                config_histogram={k: v for k, v in tags.items() if k.startswith('kind=')})


def replay(prop, obj):
    q = run_program(obj['cfg']['tier'], obj['cfg']['idx'], seed=obj['cfg'].get('seed', 0), prog=obj.get('program'), plan=obj.get('plan'), kms=obj['cfg'].get('kms'))
    if q['err']: raise NoVerdict(q['err'])
    divs = [d for d in analyse(prop, [q]) if d['detail']['what'] in PROP_DIV.get(prop, ())]
    return dict(violations=[dict(prop=prop, sig=v['sig'], msg=v['msg'], i=0) for v in q['viol'] if v['prop'] in ALSO.get(prop, (prop,))],
                divergence=divs[0]['detail'] if divs else None)


def shrink_and_save(prop, v):
    return write_replay(prop, 'violation', dict(suite='keys', property=prop, cfg=v['cfg'], program=v['ops'], plan=v.get('plan'), source=v.get('src'),
                                                 signature=v['sig'], message=v['msg'],
                                                 how_to_replay='cd /verif && ./check %s --replay <this file>  (regenerates program %r and re-runs it)' % (prop, v['cfg'])))


def search(prop, tier, divergences, budget_s, known):
    import verdict
    t0 = time.time(); off = 100000
    while time.time() - t0 < budget_s:
        r = explore(prop, 'search', n=NPROC * 6, offset=off); off += NPROC * 6
        for v in r['violations']:
            if not verdict.match_known(prop, v['sig'], known):
                return shrink_and_save(prop, v)
    return None
